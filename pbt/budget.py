"""Look-up budget proxy (DESIGN 4.3).

``CountingArray`` is an ndarray view class whose ``__getitem__`` increments a shared counter and raises
``LookupBudgetExceeded`` once the counter passes the budget.  The exception derives from ``BaseException`` so that
no ``except Exception`` in the code under test can swallow it.  This turns "does not terminate" into a
deterministic, replayable outcome instead of a wall-clock timeout.
"""
import signal

import numpy


class LookupBudgetExceeded(BaseException):
    pass


class HarnessTimeout(BaseException):
    """Wall-clock watchdog: a hang that bypasses the proxy.  Inconclusive (exit 2), never a violation."""


class _Counter(object):
    __slots__ = ("count", "budget")

    def __init__(self, budget):
        self.count, self.budget = 0, budget


class CountingArray(numpy.ndarray):
    _counter = None

    def __array_finalize__(self, obj):
        if obj is not None:
            self._counter = getattr(obj, "_counter", None)

    def __getitem__(self, item):
        counter = self._counter
        if counter is not None:
            counter.count += 1
            if counter.count > counter.budget:
                raise LookupBudgetExceeded("more than %d accessor look-ups" % counter.budget)
        return super().__getitem__(item)


def counted(accessor, budget):
    """Return (view, counter): a CountingArray view of ``accessor`` (data shared, never copied back)."""
    view = numpy.array(accessor, copy=True).view(CountingArray)
    counter = _Counter(budget)
    view._counter = counter
    return view, counter


class watchdog(object):
    """``with watchdog(seconds):`` raises HarnessTimeout in the main thread when the block takes too long."""

    def __init__(self, seconds):
        self.seconds = seconds

    def _fire(self, *_):
        raise HarnessTimeout("watchdog: call exceeded %.0f s" % self.seconds)

    def __enter__(self):
        self.old = signal.signal(signal.SIGALRM, self._fire)
        signal.setitimer(signal.ITIMER_REAL, self.seconds)
        return self

    def __exit__(self, *exc):
        signal.setitimer(signal.ITIMER_REAL, 0)
        signal.signal(signal.SIGALRM, self.old)
        return False
