"""Look-up budget proxy (DESIGN 4.3).

``CountingArray`` is an ndarray view class whose ``__getitem__`` increments a shared counter and raises
``LookupBudgetExceeded`` once the counter passes the budget.  The exception derives from ``BaseException`` so that
no ``except Exception`` in the code under test can swallow it.  This turns "does not terminate" into a
deterministic, replayable outcome instead of a wall-clock timeout.
"""
import signal

import numpy


class LookupBudgetExceeded(BaseException):
    pass


class HarnessTimeout(BaseException):
    """Wall-clock watchdog: a hang that bypasses the proxy.  Inconclusive (exit 2), never a violation."""


class _Counter(object):
    __slots__ = ("count", "budget")

    def __init__(self, budget):
        self.count, self.budget = 0, budget


class CountingArray(numpy.ndarray):
    _counter = None

    def __array_finalize__(self, obj):
        if obj is not None:
            self._counter = getattr(obj, "_counter", None)

    def __getitem__(self, item):
        counter = self._counter
        if counter is not None:
            counter.count += 1
            if counter.count > counter.budget:
                raise LookupBudgetExceeded("more than %d accessor look-ups" % counter.budget)
        return super().__getitem__(item)


_PROXIES = {}


def counted(accessor, budget):
    """Return (view, counter): a CountingArray with the accessor's content and memory layout.

    One long-lived proxy object is kept per (shape, dtype, strides) and refilled in place, so that consecutive calls
    pass the same array object with different contents (see gens.pooled)."""
    import os
    key = (accessor.shape, accessor.dtype.str, accessor.strides, bool(accessor.flags.writeable))
    view = None if os.environ.get("VERIF_NO_POOL") else _PROXIES.get(key)
    if view is None:
        if accessor.flags.c_contiguous:
            view = numpy.array(accessor, copy=True).view(CountingArray)
        elif accessor.flags.f_contiguous:
            view = numpy.asfortranarray(accessor.copy(order="F")).view(CountingArray)
        else:  # strided or offset view: rebuild the same view over a private copy of the base buffer
            import copy as _copy
            base = accessor.base if accessor.base is not None else accessor
            holder = _copy.deepcopy(base)
            offset = (accessor.__array_interface__["data"][0] - base.__array_interface__["data"][0])
            view = numpy.ndarray(accessor.shape, dtype=accessor.dtype, buffer=holder.data, offset=offset,
                                 strides=accessor.strides).view(CountingArray)
        _PROXIES[key] = view
    else:
        view._counter = None
        view.setflags(write=True)
        numpy.copyto(view, accessor)
    view.setflags(write=bool(accessor.flags.writeable))
    counter = _Counter(budget)
    view._counter = counter
    return view, counter


class watchdog(object):
    """``with watchdog(seconds):`` raises HarnessTimeout in the main thread when the block takes too long."""

    def __init__(self, seconds):
        self.seconds = seconds

    def _fire(self, *_):
        raise HarnessTimeout("watchdog: call exceeded %.0f s" % self.seconds)

    def __enter__(self):
        self.old = signal.signal(signal.SIGALRM, self._fire)
        signal.setitimer(signal.ITIMER_REAL, self.seconds)
        return self

    def __exit__(self, *exc):
        signal.setitimer(signal.ITIMER_REAL, 0)
        signal.signal(signal.SIGALRM, self.old)
        return False
