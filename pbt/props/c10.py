"""C10 - repair always returns."""
import random

from hypothesis import strategies as st

from pbt import gens, oracles as o, repairing
from pbt.core import Outcome, Raised, SubCheck, bad, discard

PROPERTY = "C10"
RULE = ("Arbitrary arc subsets, well-formed coding graphs and generated graphs of order 1..3 (4 thorough); ACGT "
        "strings of length >= k: walks with 1..8 edits anywhere, forced classes (first nucleotide not an arc of the "
        "start vertex, error in the last window / on the last nucleotide, length exactly k, random strings, long "
        "walks with dozens of well-separated errors); options (check, indel handling, heap limit 1..1e4). "
        "repair_dna runs on a counting accessor proxy with budget 50(n+1)^2(k+1)+1e4 look-ups AND under a line-event "
        "tracer with budget 400(n+1)(k+2)^2 + 60*heap*(sites+2) + 2e4 executed library lines (both deterministic and "
        "replayable); it must return a (list of str, 4-tuple) without raising. Non-trivial: the input is not a walk.")
ASSUMPTIONS = ["'terminates after polynomially many look-ups' is decided by the two explicit budgets above (measured "
               "maxima on the tree are more than 20x below them); a wall-clock watchdog hit is inconclusive (exit 2)"]


def line_budget(n, k, heap, sites):
    return int(400 * (n + 1) * (k + 2) ** 2 + 60 * min(heap, 10 ** 4) * (sites + 2) + 20000)


@st.composite
def cases(draw, tier):
    kmax = 3 if tier == "quick" else 4
    source = draw(st.sampled_from(["arcs", "coding", "generated"] * 8 + ["large_k"]))
    if source == "large_k":
        # the observed lengths used in practice: vertex indices beyond 2^15 (order 8) on a dense random arc subset
        k = draw(st.sampled_from([6, 8, 8]))
        big = random.Random(draw(st.integers(0, 2 ** 32 - 1)))
        graph = {"k": k, "rows": [big.choice([15, 15, 7, 11, 13, 14, 5, 10]) for _ in range(4 ** k)],
                 "start": big.randrange(4 ** k)}
    elif source == "coding":
        graph = draw(gens.coding_graphs(1, kmax, weights={1: 2, 2: 4, 3: 4, 4: 2}))
    elif source == "generated":
        spec = draw(gens.generated_graphs(1, kmax, {1: 2, 2: 4, 3: 4, 4: 2}))
        starts = [v for v, r in enumerate(spec["rows"]) if r]
        graph = {"k": spec["k"], "rows": spec["rows"], "start": starts[draw(st.integers(0, len(starts) - 1))]}
    else:
        graph = draw(gens.arc_subsets(1, kmax, {1: 2, 2: 4, 3: 4, 4: 2}))
        graph = dict(graph, start=draw(st.integers(0, 4 ** graph["k"] - 1)))
    k, rows, start = graph["k"], graph["rows"], graph["start"]
    rng = random.Random(draw(st.integers(0, 2 ** 32 - 1)))
    kind = draw(st.sampled_from(["edits", "edits", "first_bad", "last_window", "last_symbol", "length_k", "random",
                                 "many_sites", "many_sites", "many_unique_sites"]))
    if kind == "many_unique_sites" and source != "large_k":
        # a sparse threshold-1 graph (mostly out-degree 1): dozens of separated substitutions, each with few repairs,
        # so the candidate product stays below the heap limit and the product path runs with 65+ fragments
        spec = draw(gens.generated_graphs(3, 4, {3: 1, 4: 2}, thresholds=(1,)))
        sparse = random.Random(draw(st.integers(0, 2 ** 32 - 1)))
        bits = [int(c) if sparse.random() < 0.45 else 0 for c in spec["mask"]]
        kept, _, _ = o.largest_closed_subgraph({i for i, b in enumerate(bits) if b}, spec["k"], 1)
        if kept:
            rows = o.rows_from_mask(kept, spec["k"])
            starts = sorted(kept)
            graph = {"k": spec["k"], "rows": rows, "start": starts[draw(st.integers(0, len(starts) - 1))]}
            k, rows, start = graph["k"], graph["rows"], graph["start"]
    walk = draw(gens.walks(graph, start, k, 48 if tier == "quick" else 120))
    if kind == "many_sites":
        walk = draw(gens.walks(graph, start, 150, 420 if tier == "quick" else 900))
    if kind == "many_unique_sites":
        walk = draw(gens.walks(graph, start, 70 * (3 * k + 3), 95 * (3 * k + 3)))
    text = walk
    if kind == "edits":
        text = draw(gens.edits(walk, draw(st.integers(1, 8))))
    elif kind == "first_bad":
        dead = [c for j, c in enumerate(o.NUC) if not (rows[start] >> j) & 1] or list("ACGT")
        text = rng.choice(dead) + walk[1:]
    elif kind == "last_window" and walk:
        pos = max(0, len(walk) - 1 - rng.randrange(k + 1))
        text = walk[:pos] + rng.choice([c for c in "ACGT" if c != walk[pos]]) + walk[pos + 1:]
    elif kind == "last_symbol" and walk:
        v = ([start] + o.walk_states(rows, k, start, walk))[len(walk) - 1]
        dead = [c for j, c in enumerate(o.NUC) if not (rows[v] >> j) & 1] or list("ACGT")
        text = walk[:-1] + rng.choice(dead)
        if rng.random() < 0.3:
            text = walk + rng.choice("ACGT")
    elif kind == "length_k":
        text = "".join(rng.choice("ACGT") for _ in range(k))
    elif kind == "random":
        text = "".join(rng.choice("ACGT") for _ in range(rng.randrange(k, 60)))
    elif kind in ("many_sites", "many_unique_sites"):
        pos, out = k + rng.randrange(3), list(walk)
        step = rng.choice([3 * k + 2, 3 * k + 3, 4 * k + 4])
        while pos < len(out) - 2 * k:
            out[pos] = rng.choice([c for c in "ACGT" if c != out[pos]])
            pos += step + rng.randrange(2)
        text = "".join(out)
    if len(text) < k:
        text = (text + "ACGT" * k)[:k]
    return {"graph": graph, "text": text, "kind": kind,
            "check_len": draw(st.sampled_from([0, 0, 3, 6])), "indel": draw(st.booleans()) and kind != "many_unique_sites",
            "heap": 10 ** 4 if kind == "many_unique_sites" else draw(st.sampled_from(
                [1, 10, 1000, 1000, 10 ** 4, "inf" if kind in ("first_bad", "length_k", "last_symbol") else 10])),
            "layout": draw(st.sampled_from([None, None, None, "F", "strided", "offset", "int32", "readonly"])),
            "np_start": draw(st.sampled_from([False, False, True])),
            "np_args": draw(st.sampled_from([False, False, False, True]))}


@st.composite
def giant_cases(draw, tier):
    """Strands of 6,000..16,000 nt with 600..1,700 separated substitutions on order-2/3 graphs whose vertices keep
    2..3 arcs: the product of candidate counts passes 2**1024 (beyond any float), so every size comparison in the
    give-up logic runs on astronomically large integers."""
    k = draw(st.sampled_from([2, 2, 3]))
    rng = random.Random(draw(st.integers(0, 2 ** 32 - 1)))
    unique = draw(st.sampled_from([True, False, False, True]))
    if unique:
        # (almost) functional graph: every vertex keeps one arc, a few keep two - nearly every error has exactly one
        # repair, the candidate product stays below the heap limit and 1,000+ fragments are recombined
        rows = [1 << rng.randrange(4) for _ in range(4 ** k)]
        for _ in range(rng.randrange(3)):
            v = rng.randrange(4 ** k)
            rows[v] |= 1 << rng.randrange(4)
    else:
        rows = [rng.choice([7, 11, 13, 14, 3, 5, 6, 9, 10, 12]) for _ in range(4 ** k)]
    start = rng.randrange(4 ** k)
    length = draw(st.integers(11000, 15000)) if unique else draw(st.integers(6000, 9000 if tier == "quick" else 16000))
    table, v, out = o.succ_table(k), start, []
    for _ in range(length):
        j = rng.choice([j for j in range(4) if (rows[v] >> j) & 1])
        out.append(o.NUC[j])
        v = table[v][j]
    pos, step = k + rng.randrange(3), rng.choice([3 * k + 2, 3 * k + 3])
    while pos < len(out) - 2 * k:
        out[pos] = rng.choice([c for c in "ACGT" if c != out[pos]])
        pos += step + rng.randrange(2)
    return {"graph": {"k": k, "rows": rows, "start": start}, "text": "".join(out),
            "kind": "giant_unique_repairs" if unique else "giant_damage",
            "check_len": draw(st.sampled_from([0, 0, 4])), "indel": draw(st.booleans()),
            "heap": draw(st.sampled_from([1, 1000, 1000, 10 ** 4])), "layout": None,
            "np_start": False, "np_args": False}


def evaluate(case):
    graph = case["graph"]
    rows, k, start = graph["rows"], graph["k"], graph["start"]
    text = case["text"]
    if len(text) < k or any(c not in o.NUC for c in text):
        return discard("string_outside_domain")
    n = len(text)
    check = o.ref_vt(text[::-1], case["check_len"]) if case["check_len"] else None
    walk = o.is_walk(rows, k, start, text)
    sites = n // (k + 1) + 1
    heap = float(case["heap"])
    budget_lines = line_budget(n, k, heap, sites)
    result, lookups, lines = repairing.run_repair(rows, k, start, text, check=check, has_indel=case["indel"],
                                                  heap_size=heap, line_budget=budget_lines,
                                                  layout=case.get("layout"), np_start=bool(case.get("np_start")),
                                              np_args=bool(case.get("np_args")))
    labels = ["kind:" + case["kind"], "walk" if walk else "not_walk", "k=%d" % k,
              "len>=150" if n >= 150 else "len<150"]
    what = "repair_dna(%r, k=%d, start=%d, check=%r, has_indel=%s, heap_size=%g)" \
           % (text if n <= 80 else text[:80] + "..[%d nt]" % n, k, start, check, case["indel"], heap)
    if result == "BUDGET":
        return bad("%s did not return within %d accessor look-ups" % (what, lookups), labels)
    if result == "STEPS":
        return bad("%s did not return within %d executed library lines" % (what, budget_lines), labels)
    if isinstance(result, Raised):
        return bad("%s raised %r" % (what, result), labels)
    if not repairing.well_formed_result(result):
        return bad("%s returned %r, not a (list of str, 4-tuple) pair" % (what, result), labels)
    labels.append("lookup_use:%s" % bucket(lookups / float(repairing.lookup_budget(n, k))))
    labels.append("line_use:%s" % bucket(lines / float(budget_lines)))
    if result[1][0] >= 30:
        labels.append("sites>=30")
    if result[1][0] >= 65:
        labels.append("product_path_sites>=65")
    if result[1][0] >= 1000:
        labels.append("product_path_sites>=1000")
    if heap == float("inf"):
        labels.append("heap=inf")
    first = o.walk_states(rows, k, start, text[:1])
    if not first:
        labels.append("first_nucleotide_not_an_arc")
    return Outcome(True, not walk, labels)


def bucket(fraction):
    return "<1%" if fraction < 0.01 else ("<5%" if fraction < 0.05 else ("<25%" if fraction < 0.25 else ">=25%"))


SUBCHECKS = [
    SubCheck("always_returns", evaluate, strategy=cases, examples=(4000, 40000), shards=(16, 16),
             floors={"first_nucleotide_not_an_arc": 200, "kind:last_symbol": 200, "kind:last_window": 200,
                     "kind:length_k": 200, "kind:many_sites": 300, "not_walk": 1500, "k=8": 40, "heap=inf": 60,
                     "product_path_sites>=65": 15}, rule=RULE, timeout=120.0),
    SubCheck("giant_damage", evaluate, strategy=giant_cases, examples=(64, 640), shards=(16, 16),
             floors={"kind:giant_damage": 15, "product_path_sites>=1000": 10, "not_walk": 40}, timeout=300.0,
             rule="Walks of 6,000..9,000 (thorough 16,000) nt on order-2/3 graphs with out-degree 2..3 carrying "
                  "600..1,700 separated substitutions, so that the product of per-site candidate counts exceeds "
                  "2**1024, and walks of 11,000..15,000 nt on (almost) functional graphs carrying 1,000+ substitutions with one "
                  "repair each (product within the heap limit: 1,000+ fragments recombined); same oracle and budgets as always_returns. Non-trivial: the input is not a walk."),
    SubCheck("fuzz_always_returns", evaluate, fuzz=("C10", (1500, 150000)), shards=(2, 8),
             rule="atheris/libFuzzer campaign: bytes are decoded into (graph from a pool of 64 arc subsets, start "
                  "vertex, string, options) and judged by the same oracle as the Hypothesis sub-check; coverage "
                  "feedback from dsw only; even shards start from an empty corpus, odd shards from 48 random inputs",
             timeout=3600.0),
]

TECHNIQUE = ("property-based testing (Hypothesis) and coverage-guided fuzzing (atheris) with termination decided by two deterministic budgets: an accessor "
             "look-up counting proxy and a line-event step counter over the library's frames")
LEVEL_TEXT = ("Generated search, 4,000 / 40,000 ACGT strings of length >= k on arbitrary, well-formed and generated "
              "graphs with forced error placements (first nucleotide, last window, last nucleotide, length exactly k, "
              "random strings, long strands with dozens of separated errors) and all option combinations: every call "
              "must return a well-formed pair without raising inside explicit polynomial budgets on graph look-ups "
              "and on executed library lines, so that a non-terminating call is a replayable failure rather than a "
              "timeout."
              " Strands of 6,000..16,000 nt with 600..1,700 damaged sites (candidate product beyond 2^1024, or 1,000+ uniquely repairable sites) run under the same budgets and the interpreter's default recursion limit.")
LEVEL_NOTE = ("Trusted: the two budgets as the meaning of 'terminates after polynomially many look-ups'; "
              "sys.settrace line events restricted to frames whose code lives under the repository's dsw/ directory.")
