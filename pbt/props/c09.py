"""C09 - repair leaves clean strands alone and only returns check-consistent candidates."""
import random

from hypothesis import strategies as st

from pbt import gens, oracles as o, repairing
from pbt.core import Outcome, Raised, SubCheck, bad, discard

PROPERTY = "C09"
RULE = ("Arbitrary well-formed coding graphs (as C01) and arbitrary arc subsets of order 1..3 (4 thorough), start "
        "vertex, string of length >= k (walk, walk with 1..4 edits incl. well-separated ones, random ACGT), check "
        "absent / right for the string / right for the original walk / wrong, indel handling on/off, heap limit in "
        "{1, 10, 1e3, 1e5, 1e9 (1e9 only for inputs with well-separated errors, so the product stays small)}. Oracle: independent walk predicate and VT formula: a walk comes back as exactly [s] (or [] "
        "when the check disagrees) with zero detected errors; every returned list is sorted and duplicate-free and, "
        "with a check, every candidate reproduces it. Calls that hit the look-up budget are left to C10. "
        "Non-trivial: clean walk with a wrong check, or a non-walk with a check, or >= 2 candidates returned.")
ASSUMPTIONS = ["an empty supplied check is reproduced by no strand (the check function is defined for n >= 1)",
               "strings are over A, C, G, T and at least one window long; graphs are arc subsets of the de Bruijn graph",
               "heap limit inf / 1e9 only for inputs with at most one edit, so candidate products stay enumerable"]


@st.composite
def cases(draw, tier):
    kmax = 3 if tier == "quick" else 4
    if draw(st.sampled_from([False] * 24 + [True])):
        # the observed lengths used in practice: vertex indices beyond 2^15
        k = draw(st.sampled_from([6, 8, 8]))
        rng = random.Random(draw(st.integers(0, 2 ** 32 - 1)))
        graph = {"k": k, "rows": [rng.choice([15, 15, 7, 11, 13, 14, 5, 10]) for _ in range(4 ** k)]}
        graph["start"] = rng.randrange(4 ** k)
    elif draw(st.booleans()):
        graph = draw(gens.coding_graphs(1, kmax, weights={1: 2, 2: 4, 3: 4, 4: 2}))
    else:
        graph = draw(gens.arc_subsets(1, kmax, {1: 2, 2: 4, 3: 4, 4: 2}))
        with_arcs = [v for v, r in enumerate(graph["rows"]) if r] or [0]
        graph = dict(graph, start=with_arcs[draw(st.integers(0, len(with_arcs) - 1))])
    k = graph["k"]
    walk = draw(gens.walks(graph, graph["start"], k, 40 if tier == "quick" else 90))
    kind = draw(st.sampled_from(["walk", "walk", "edit1", "edit1", "edits", "spaced", "random"]))
    if kind == "walk":
        text = walk
    elif kind == "edit1":
        text = draw(gens.edits(walk, 1))
    elif kind == "edits":
        text = draw(gens.edits(walk, draw(st.integers(2, 4))))
    elif kind == "spaced":
        text, pos = walk, len(walk) - 2 * k - 1
        rng = random.Random(draw(st.integers(0, 2 ** 32 - 1)))
        while pos >= k:
            text = text[:pos] + rng.choice([c for c in "ACGT" if c != text[pos]]) + text[pos + 1:]
            pos -= 3 * k + 2 + rng.randrange(3)
    else:
        text = draw(st.text(alphabet="ACGT", min_size=k, max_size=24))
    if len(text) < k:
        text = (text + walk + "ACGT" * k)[:k]
    return {"graph": graph, "walk": walk, "text": text,
            "check_kind": draw(st.sampled_from(["none", "none", "of_text", "of_text", "of_walk", "wrong", "empty"])),
            "check_len": draw(st.integers(1, 6)), "indel": draw(st.booleans()),
            "heap": draw(st.sampled_from([1, 10, 1000, 1000, 10 ** 9 if kind in ("walk", "edit1") else 10 ** 4,
                                          "inf" if kind in ("walk", "edit1") else 1000])),
            "salt": draw(st.integers(0, 2 ** 16)),
            "layout": draw(st.sampled_from([None, None, None, "F", "strided", "offset", "int32", "readonly"])),
            "np_start": draw(st.sampled_from([False, False, True])),
            "np_args": draw(st.sampled_from([False, False, False, True]))}


@st.composite
def long_cases(draw, tier):
    """Long strands: clean walks of 300..4,000 nt and walks of 6,000..9,000 nt carrying hundreds of separated
    substitutions (candidate product beyond 2**1024, so the give-up path runs), each under every kind of check."""
    k = draw(st.sampled_from([2, 2, 3]))
    rng = random.Random(draw(st.integers(0, 2 ** 32 - 1)))
    rows = [rng.choice([7, 11, 13, 14, 3, 5, 6, 9, 10, 12]) for _ in range(4 ** k)]
    start = rng.randrange(4 ** k)
    giant = draw(st.booleans())
    length = draw(st.integers(6000, 9000 if tier == "quick" else 14000)) if giant else draw(st.integers(300, 4000))
    table, v, out = o.succ_table(k), start, []
    for _ in range(length):
        j = rng.choice([j for j in range(4) if (rows[v] >> j) & 1])
        out.append(o.NUC[j])
        v = table[v][j]
    walk = "".join(out)
    if giant:
        pos, step = k + rng.randrange(3), rng.choice([3 * k + 2, 3 * k + 3])
        while pos < len(out) - 2 * k:
            out[pos] = rng.choice([c for c in "ACGT" if c != out[pos]])
            pos += step + rng.randrange(2)
    return {"graph": {"k": k, "rows": rows, "start": start}, "walk": walk, "text": "".join(out),
            "check_kind": draw(st.sampled_from(["none", "of_text", "of_text", "of_walk", "wrong"])),
            "check_len": draw(st.integers(1, 8)), "indel": draw(st.booleans()),
            "heap": draw(st.sampled_from([1, 1000, 1000, 10 ** 4])), "salt": draw(st.integers(0, 2 ** 16)),
            "layout": None, "np_start": False, "np_args": False, "long": "giant" if giant else "clean"}


def evaluate(case):
    graph = case["graph"]
    rows, k, start = graph["rows"], graph["k"], graph["start"]
    text = case["text"]
    if len(text) < k or any(c not in o.NUC for c in text):
        return discard("string_outside_domain")
    n = case["check_len"]
    kind = case["check_kind"]
    if kind == "none":
        check = None
    elif kind == "empty":
        check = ""  # an empty check is reproduced by no strand (the check function is defined for n >= 1)
    elif kind == "of_text":
        check = o.ref_vt(text, n)
    elif kind == "of_walk":
        check = o.ref_vt(case["walk"], n)
    else:
        right = o.ref_vt(text, n)
        rng = random.Random(case["salt"])
        pos = rng.randrange(n)
        check = right[:pos] + rng.choice([c for c in "ACGT" if c != right[pos]]) + right[pos + 1:]
    walk = o.is_walk(rows, k, start, text)
    heap = float(case["heap"])
    labels = ["walk" if walk else "not_walk", "check:" + kind, "indel" if case["indel"] else "no_indel",
              "heap=%g" % heap, "k=%d" % k]
    result, lookups, _ = repairing.run_repair(rows, k, start, text, check=check, has_indel=case["indel"],
                                              heap_size=heap, layout=case.get("layout"), np_start=bool(case.get("np_start")),
                                              np_args=bool(case.get("np_args")))
    if case.get("layout"):
        labels.append("layout:" + case["layout"])
    if case.get("long"):
        labels.append("long:" + case["long"])
    shown = text if len(text) <= 120 else text[:80] + "..[%d nt]" % len(text)
    what = "repair_dna(%r, k=%d, start=%d, check=%r, has_indel=%s, heap_size=%g)" \
           % (shown, k, start, check, case["indel"], heap)
    if isinstance(result, str):
        return discard("did_not_return_within_budget", labels)
    if isinstance(result, Raised):
        return discard("raised:" + result.name, labels)  # "returns without raising" is C10's statement
    if not repairing.well_formed_result(result):
        return bad("%s returned a malformed result %r" % (what, result), labels)
    candidates, statistics = result
    if walk:
        matches = check is None or (len(check) > 0 and o.ref_vt(text, len(check)) == check)
        want = [text] if matches else []
        if candidates != want:
            return bad("%s: the strand is already a walk, expected %s, got %r"
                       % (what, "[the strand]" if want else "[]", [c if len(c) <= 120 else c[:60] + ".." for c in
                                                                  candidates[:6]]), labels)
        if statistics[0] != 0:
            return bad("%s: clean strand but %r detected errors reported" % (what, statistics[0]), labels)
        if not matches:
            labels.append("clean_wrong_check")
    if candidates != sorted(candidates):
        return bad("%s: candidate list is not sorted: %r" % (what, candidates[:8]), labels)
    if len(set(candidates)) != len(candidates):
        return bad("%s: candidate list has duplicates: %r" % (what, candidates[:8]), labels)
    if check is not None:
        for cand in candidates:
            if len(check) == 0 or any(c not in o.NUC for c in cand) or o.ref_vt(cand, len(check)) != check:
                return bad("%s: candidate %r does not reproduce the supplied check %r" % (what, cand, check), labels)
    if kind == "of_text" and walk:
        # the same strand again with a longer (right) check: every call is judged on its own
        longer = o.ref_vt(text, n + 3)
        again, _, _ = repairing.run_repair(rows, k, start, text, check=longer, has_indel=case["indel"], heap_size=heap)
        if isinstance(again, (str, Raised)) or not repairing.well_formed_result(again) or again[0] != [text]:
            return bad("%s returned %r and then, for the same clean strand with its %d-symbol check %r, %r"
                       % (what, candidates, n + 3, longer, again if isinstance(again, (str, Raised)) else again[0][:4]),
                       labels)
        labels.append("second_call_longer_check")
    if len(candidates) >= 2:
        labels.append("multi_candidates")
        if len({len(c) for c in candidates}) >= 2:
            labels.append("candidates_of_different_length")
    if statistics[0] == 0 and not walk:
        labels.append("fallback_path")
        if check is not None:
            labels.append("fallback_with_check")
    if statistics[0] >= 2:
        labels.append("multi_site_product")
    nontrivial = "clean_wrong_check" in labels or (not walk and check is not None) or len(candidates) >= 2
    return Outcome(True, nontrivial, labels)


SUBCHECKS = [
    SubCheck("repair_contract", evaluate, strategy=cases, examples=(6000, 60000), shards=(16, 16),
             floors={"clean_wrong_check": 100, "fallback_with_check": 100, "multi_candidates": 200,
                     "candidates_of_different_length": 60, "multi_site_product": 60, "walk": 800, "k=8": 40,
                     "check:empty": 200, "second_call_longer_check": 200, "heap=inf": 100}, rule=RULE, timeout=300.0),
    SubCheck("long_strands", evaluate, strategy=long_cases, examples=(96, 960), shards=(16, 16),
             floors={"long:giant": 25, "long:clean": 25, "clean_wrong_check": 4, "fallback_with_check": 10},
             timeout=300.0,
             rule="Order-2/3 graphs with out-degree 2..3: clean walks of 300..4,000 nt, and walks of 6,000..9,000 "
                  "(thorough 14,000) nt with 600+ separated substitutions whose candidate product exceeds 2**1024 "
                  "(the give-up path), under no / right / original-walk / wrong checks of 1..8 symbols; same oracle "
                  "as repair_contract. Non-trivial: as repair_contract."),
    SubCheck("fuzz_repair_contract", evaluate, fuzz=("C09", (4000, 250000)), shards=(2, 8),
             rule="atheris/libFuzzer campaign: bytes are decoded into (graph from a pool of 64 arc subsets, start "
                  "vertex, string, options) and judged by the same oracle as the Hypothesis sub-check; coverage "
                  "feedback from dsw only; even shards start from an empty corpus, odd shards from 48 random inputs",
             timeout=3600.0),
]

TECHNIQUE = ("property-based testing (Hypothesis) and coverage-guided fuzzing (atheris): validity predicate over repair_dna's output against an independent "
             "walk predicate and VT formula")
LEVEL_TEXT = ("Generated search, 6,000 / 60,000 cases on well-formed and arbitrary arc-subset graphs: clean walks "
              "must come back untouched (or as the empty list under a disagreeing check) with zero detected errors; "
              "for every input that returns, the list is sorted, duplicate-free and check-consistent on both return "
              "paths (class floors make sure the fallback path with a check, the product path with several sites "
              "and candidates of different length are all reached)."
              ' Long strands (clean walks up to 4,000 nt; 6,000..14,000 nt with 600+ damaged sites, where the give-up path decides) are judged by the same oracle.')
LEVEL_NOTE = "Trusted: walk predicate and VT formula in pbt/oracles.py. Non-returning or raising calls are C10's subject."
