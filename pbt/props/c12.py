"""C12 - the local filter implements its documented window predicate."""
import random

from hypothesis import strategies as st

from pbt import gens, oracles as o
from pbt.core import Outcome, Raised, SubCheck, bad, discard, lib_call

PROPERTY = "C12"
RULE = ("Configurations: observed length 1..10 and 16, 33, 40, 64, run limit none / 0 / 1..k+2, GC range from dyadic, decimal, degenerate "
        "and asymmetric bounds, 0..3 motifs of length 1..k (also text-palindromic ones); configurations the "
        "constructor rejects are counted. Strings over ACGT and over a wider alphabet, length 0..3k+2, biased to "
        "boundary GC counts, to runs of exactly limit and limit+1, and to strings containing a motif's reverse "
        "complement but not the motif. Oracle: independent three-valued predicate (exact rational arithmetic; a "
        "verdict that hinges on a float-boundary-ambiguous comparison is not asserted and is counted); metamorphic: "
        "last-window verdict == whole verdict of the final window; window-decidable and len >= k: whole verdict == "
        "conjunction over windows; verdict(s) == verdict(reverse complement). Non-trivial: >= 2 rules configured, or "
        "a GC count exactly on a bound, or a reverse-complement-only motif hit.")
ASSUMPTIONS = ["0 <= lo, hi <= 1 (also lo > hi, which no full window can satisfy); motifs are non-empty ACGT strings; GC bounds are the decimal literals shown in "
               "the case (comparisons whose float product is inexact exactly at the boundary are ambiguous)"]


@st.composite
def cases(draw, tier):
    k = draw(st.sampled_from([1, 2, 3, 3, 4, 4, 5, 5, 6, 7, 7, 8, 9, 10, 16, 33, 40, 64]))
    cfg = draw(gens.local_filter_cfgs(k, decidable=draw(st.integers(0, 3)) > 0))
    if cfg["motifs"] and draw(st.sampled_from([False, False, True])):
        # a list that holds a motif together with its own reverse complement
        cfg = dict(cfg, motifs=list(cfg["motifs"]) + [o.revcomp(cfg["motifs"][0])])
    if cfg["motifs"] is not None and draw(st.booleans()):
        extra = draw(st.sampled_from(["GAG", "AA", "ACA", "TCT", "GC", "AT", "CTC", "A", "CG", "ACGT", "GAATTC"]))
        if len(extra) <= k:
            cfg = dict(cfg, motifs=list(cfg["motifs"]) + [extra])
    if draw(st.sampled_from([False] * 11 + [True])):
        cfg = dict(cfg, run=0)
    if cfg["gc"] is not None and draw(st.sampled_from([False] * 9 + [True])):
        cfg = dict(cfg, gc=[cfg["gc"][1], cfg["gc"][0]])  # lower bound above the upper bound: no window can satisfy it  # a legal run limit: every non-empty string has a run longer than 0
    rng = random.Random(draw(st.integers(0, 2 ** 32 - 1)))
    n = draw(st.one_of(st.integers(k, 3 * k + 2), st.integers(k, 2 * k), st.integers(0, 3 * k + 2)))
    shape = draw(st.sampled_from(["random", "random", "gc_boundary", "gc_boundary", "run", "run", "motif_rc",
                                  "motif_rc", "motif", "foreign", "short", "long_valid", "long_valid", "long_valid"]))
    if shape == "short":
        n = draw(st.integers(0, max(0, k - 1)))
    text = [rng.choice("ACGT") for _ in range(n)]
    if shape == "gc_boundary" and cfg["gc"] is not None and n:
        from fractions import Fraction
        target = Fraction(cfg["gc"][rng.randrange(2)]) * k
        want = max(0, min(n, int(target) + rng.choice([0, 0, 1, -1])))
        window = [rng.choice("GC") for _ in range(want)] + [rng.choice("AT") for _ in range(max(0, min(n, k) - want))]
        rng.shuffle(window)
        text = (window * (n // max(1, len(window)) + 1))[:n] if window else text
    elif shape == "run" and n:
        length = (cfg["run"] or rng.randrange(1, k + 2)) + rng.choice([0, 1])
        pos = rng.randrange(0, max(1, n - length + 1))
        c = rng.choice("ACGT")
        for i in range(pos, min(n, pos + length)):
            text[i] = c
        if pos > 0 and text[pos - 1] == c:
            text[pos - 1] = rng.choice([x for x in "ACGT" if x != c])
        if pos + length < n and text[pos + length] == c:
            text[pos + length] = rng.choice([x for x in "ACGT" if x != c])
    elif shape in ("motif_rc", "motif") and cfg["motifs"]:
        m = rng.choice(cfg["motifs"])
        piece = o.revcomp(m) if shape == "motif_rc" else m
        if len(piece) <= n:
            pos = rng.randrange(0, n - len(piece) + 1)
            text[pos: pos + len(piece)] = list(piece)
    elif shape == "foreign" and n:
        where = rng.choice([rng.randrange(n), n - 1, n - 1])
        text[where] = rng.choice(["\n"] * 14 + list("acgtNU-x \t\r\x00" + gens.FOREIGN))
    elif shape == "long_valid" and k <= 10:
        # dozens of windows (24k..40k symbols), extended greedily so that every window keeps satisfying the
        # documented predicate (the way an emitted strand does); sometimes spoilt at one place afterwards
        target, text = rng.choice([rng.randrange(24 * k, 40 * k + 1), rng.randrange(250, 340)]), []
        while len(text) < target:
            for c in rng.sample("ACGT", 4):
                if len(text) + 1 < k or o.ref_local_filter(cfg, "".join(text[-(k - 1):] if k > 1 else []) + c,
                                                            only_last=True) is not False:
                    text.append(c)
                    break
            else:
                break
        if text and rng.random() < 0.4:
            # one symbol replaced: anywhere, inside the very first window, or inside the very last one
            where = rng.choice([rng.randrange(len(text)), rng.randrange(min(k, len(text))),
                                len(text) - 1 - rng.randrange(min(k, len(text)))])
            text[where] = rng.choice("ACGT")
            if cfg["gc"] is not None and rng.random() < 0.5 and len(text) >= k:
                # push the first (or last) window out of the GC range as a whole
                fill = rng.choice(["GC", "AT"])
                span = range(0, k) if rng.random() < 0.5 else range(len(text) - k, len(text))
                for i in span:
                    text[i] = rng.choice(fill)
    text = "".join(text)
    # further strings judged by the SAME filter object afterwards (verdicts must not depend on earlier calls):
    # variants that share a long suffix with the first string, and the first string again
    followers = []
    for _ in range(draw(st.integers(0, 3))):
        cut = rng.randrange(0, max(1, len(text) - min(len(text), 32) + 1))
        head = "".join(rng.choice("ACGT") for _ in range(cut)) if rng.random() < 0.7 else "A" * cut
        followers.append(head + text[cut:])
    if followers and rng.random() < 0.5:
        followers.append(text)
    if draw(st.sampled_from([False, False, False, True])):
        cfg = dict(cfg, tuples=True)
    return {"cfg": cfg, "text": text, "followers": followers, "np_str": draw(st.sampled_from([False, False, True]))}


def evaluate(case):
    cfg, text = case["cfg"], case["text"]
    k = cfg["k"]
    built = lib_call(gens.build_local_filter, cfg)
    labels = ["k=%d" % k]
    if isinstance(built, Raised):
        if built.type is ValueError:
            return discard("constructor_rejects_configuration", labels)
        return bad("LocalBioFilter(%r) raised %r" % (cfg, built), labels)
    rules = sum(1 for key in ("run", "gc", "motifs") if cfg.get(key) is not None)
    labels.append("rules=%d" % rules)
    if cfg.get("run") == 0:
        labels.append("run=0")
    if cfg.get("gc") and float(cfg["gc"][0]) > float(cfg["gc"][1]):
        labels.append("gc_lower>upper")
    if text.endswith("\n"):
        labels.append("trailing_newline")
    acgt = all(c in o.NUC for c in text)
    verdicts = {}
    argument = text
    if case.get("np_str"):
        import numpy
        argument = numpy.str_(text)
        labels.append("numpy_str")
    for only_last in (False, True):
        want = o.ref_local_filter(cfg, text, only_last=only_last)
        got = lib_call(built.valid, argument, only_last=only_last)
        if isinstance(got, Raised):
            return bad("valid(%r, only_last=%s) raised %r for %r" % (text, only_last, got, cfg), labels)
        verdicts[only_last] = got
        if want is None:
            labels.append("float_boundary")
            continue
        if bool(got) != want or not isinstance(got, bool):
            return bad("valid(%r, only_last=%s) = %r, the documented predicate gives %r for %r"
                       % (text, only_last, got, want, cfg), labels)
    # metamorphic relations on the library's own verdicts
    tail = lib_call(built.valid, text[-k:], only_last=False)
    if tail != verdicts[True]:
        return bad("last-window verdict %r differs from the whole-sequence verdict %r of the final window %r (%r)"
                   % (verdicts[True], tail, text[-k:], cfg), labels)
    if acgt:
        rc = lib_call(built.valid, o.revcomp(text), only_last=False)
        if rc != verdicts[False] and o.ref_local_filter(cfg, text) is not None \
                and o.ref_local_filter(cfg, o.revcomp(text)) is not None:
            return bad("verdict %r for %r but %r for its reverse complement (%r)"
                       % (verdicts[False], text, rc, cfg), labels)
    if o.window_decidable(cfg) and len(text) >= k and acgt:
        windows = [lib_call(built.valid, text[i: i + k], only_last=False) for i in range(len(text) - k + 1)]
        if all(isinstance(w, bool) for w in windows) and all(windows) != verdicts[False]:
            return bad("window-decidable configuration %r: whole verdict %r for %r but window verdicts %r"
                       % (cfg, verdicts[False], text, windows), labels)
        labels.append("window_conjunction")
    for later in case.get("followers", []):
        for only_last in (True, False):
            want = o.ref_local_filter(cfg, later, only_last=only_last)
            got = lib_call(built.valid, later, only_last=only_last)
            if want is not None and (isinstance(got, Raised) or bool(got) != want):
                return bad("the same filter object, after judging %r, says valid(%r, only_last=%s) = %r; the "
                           "documented predicate gives %r for %r" % (text, later, only_last, got, want, cfg), labels)
        labels.append("same_object_again")
    boundary = False
    if cfg["gc"] is not None and acgt and text:
        from fractions import Fraction
        gc = text[-k:].count("C") + text[-k:].count("G")
        boundary = any(Fraction(b) * k == gc for b in cfg["gc"])
        if boundary:
            labels.append("gc_on_bound")
    rc_only = False
    if cfg["motifs"] and acgt:
        rc_only = any(m not in text and o.revcomp(m) in text for m in cfg["motifs"])
        if rc_only:
            labels.append("rc_only_motif_hit")
    if len(text) < k:
        labels.append("shorter_than_window")
    if len(text) >= 256:
        labels.append("len>=256")
        if not verdicts[False]:
            labels.append("len>=256_rejected")
    if len(text) >= 24 * k:
        labels.append("windows>=24")
        if verdicts[False]:
            labels.append("windows>=24_accepted")
    if not acgt:
        labels.append("foreign")
    labels.append("accepts" if verdicts[False] else "rejects")
    return Outcome(True, rules >= 2 or boundary or rc_only, labels)


SUBCHECKS = [
    SubCheck("predicate", evaluate, strategy=cases, examples=(12000, 150000), shards=(16, 16),
             floors={"gc_on_bound": 500, "rc_only_motif_hit": 150, "window_conjunction": 1500,
                     "shorter_than_window": 800, "foreign": 300, "accepts": 1500, "rejects": 1500, "rules=3": 300,
                     "same_object_again": 1500, "k=40": 200, "run=0": 200, "trailing_newline": 60,
                     "windows>=24": 600, "windows>=24_accepted": 250, "len>=256": 150, "len>=256_rejected": 40},
             rule=RULE),
]

TECHNIQUE = ("property-based testing (Hypothesis) against an independent exact-rational reference predicate, plus "
             "metamorphic relations (last window, window conjunction, reverse complement)")
LEVEL_TEXT = ("Generated search, 12,000 / 150,000 (configuration, string) pairs with generators aimed at the decision "
              "boundaries (GC count on a bound, run of exactly limit / limit+1, reverse-complement-only motif hits, "
              "strings shorter than the window, foreign characters); every whole-sequence and last-window verdict is "
              "compared with the documented predicate evaluated in exact arithmetic, and three metamorphic relations "
              "are checked on the library's own verdicts."
              ' Strings of 24..40 windows and of 250..340 symbols whose every window satisfies the predicate (optionally spoilt in the first or last window) cover length-dependent code paths.')
LEVEL_NOTE = ("Trusted: the reference predicate in pbt/oracles.py. Verdicts that hinge on a comparison exactly at a "
              "bound whose float product is inexact are not asserted (counted as float_boundary).")
