"""C17 - reported capacity is the log2 spectral radius of the graph."""
import math
import random

from hypothesis import strategies as st

from pbt import gens, oracles as o
from pbt.core import Outcome, Raised, SubCheck, bad, discard, import_dsw, lib_call

PROPERTY = "C17"
RULE = ("All 65,536 order-1 graphs are enumerated; arc subsets and generated graphs of order 1..4 are drawn by Hypothesis; admissible order-1/2 graphs are also lifted to their higher-block presentation at order 5..7 (same non-zero spectrum, 1,024..16,384 vertices). The oracle decides the precondition: own "
        "Tarjan SCCs, exactly one cyclic component, aperiodic (gcd of cycle lengths by BFS levels), spectral gap "
        "|lambda2| <= 0.85 lambda1 by numpy.linalg.eigvals on the component with numpy's lambda1 within 1e-6 of the "
        "certified radius (otherwise excluded and counted). Reference value: Collatz-Wielandt bounds on A+I until "
        "hi-lo < 1e-11. Asserted: |capacity - log2 rho| <= 1e-4 (+ bound width) with 2..10 random starts "
        "(numpy.random seeded from the case) and with the single deterministic start; every graph: result <= 2; "
        "arc-less => 0.0; d-regular on live vertices (also with extra arcs into dead vertices) => log2 d with one "
        "start. Non-trivial: admissible, not regular, and the power iteration takes more than 5 steps.")
ASSUMPTIONS = ["graphs within 15% of the spectral-gap limit 0.9 are excluded rather than judged (numpy's eigenvalues "
               "are only used behind that margin and are cross-checked against the certified radius)",
               "'exactly log2 d' is compared with tolerance 1e-12 to be independent of the libm in use"]


def analyse(rows, k):
    """Precondition and reference value.  Returns dict(admissible, reason, lo, hi)."""
    import numpy
    comps = o.cyclic_components(rows, k)
    if not comps:
        return {"admissible": False, "reason": "acyclic"}
    if len(comps) > 1:
        return {"admissible": False, "reason": "several_cyclic_components"}
    comp, cs = comps[0]
    if o.component_period(rows, k, comp, cs) != 1:
        return {"admissible": False, "reason": "periodic"}
    a = o.component_matrix(rows, k, comp, cs)
    lo, hi = o.certified_radius(a)
    if hi - lo > 1e-9:
        return {"admissible": False, "reason": "radius_not_certified"}
    moduli = sorted(abs(numpy.linalg.eigvals(a)), reverse=True)
    if abs(moduli[0] - (lo + hi) / 2) > 1e-6:
        return {"admissible": False, "reason": "numpy_disagrees_with_certified_radius"}
    if len(moduli) > 1 and moduli[1] > 0.85 * moduli[0]:
        return {"admissible": False, "reason": "spectral_gap_too_small"}
    return {"admissible": True, "reason": "admissible", "lo": lo, "hi": hi, "size": len(comp)}


@st.composite
def graph_cases(draw, tier):
    source = draw(st.sampled_from(["arcs", "arcs", "generated", "dense", "dense_ball", "sub_alphabet"]))
    warmup = None
    if source == "sub_alphabet":
        # the de Bruijn graph over a 2- or 3-letter sub-alphabet (|S|-regular, strongly connected, aperiodic), judged
        # right AFTER a call on the graph over other letters of the same order: nothing may carry over between calls
        k = draw(st.sampled_from([1, 1, 2, 2, 3]))
        table = o.succ_table(k)
        letters = draw(st.sampled_from([[0, 1], [2, 3], [0, 3], [1, 2], [0, 2], [1, 3], [0, 1, 2], [1, 2, 3]]))
        others = draw(st.sampled_from([[j for j in range(4) if j not in letters], letters[::-1],
                                       [j for j in range(4) if j not in letters] + letters[:1]]))

        def over(alphabet):
            rows = []
            for v in range(4 ** k):
                digits = [(v >> (2 * i)) & 3 for i in range(k)]
                rows.append(sum(1 << j for j in alphabet) if all(d in alphabet for d in digits) else 0)
            return rows
        graph = {"k": k, "rows": over(letters)}
        warmup = over(others)
    elif source == "dense_ball":
        # a pocket of maximum-out-degree vertices (everything within 4..6 steps of a root keeps d arcs) inside a
        # thinner graph: the all-ones start sees the estimate d for several steps before the thin part is felt
        k = draw(st.sampled_from([3, 3, 4]))
        d = draw(st.sampled_from([2, 2, 3]))
        rng = random.Random(draw(st.integers(0, 2 ** 32 - 1)))
        table = o.succ_table(k)
        thin = draw(st.sampled_from([0.25, 0.5, 0.75]))
        rows = []
        for _ in range(4 ** k):
            degree = d if rng.random() > thin else rng.randrange(1, d)
            rows.append(sum(1 << j for j in rng.sample(range(4), degree)))
        level, seen = {rng.randrange(4 ** k)}, set()
        for _ in range(draw(st.integers(4, 6))):
            nxt = set()
            for u in level - seen:
                seen.add(u)
                have = [j for j in range(4) if (rows[u] >> j) & 1]
                more = [j for j in range(4) if not (rows[u] >> j) & 1]
                rng.shuffle(more)
                rows[u] = sum(1 << j for j in (have + more)[:d])
                nxt |= {table[u][j] for j in range(4) if (rows[u] >> j) & 1}
            level = nxt
        graph = {"k": k, "rows": rows}
    elif source == "generated":
        spec = draw(gens.generated_graphs(1, 4, {1: 2, 2: 4, 3: 3, 4: 1}))
        graph = {"k": spec["k"], "rows": spec["rows"]}
    else:
        graph = draw(gens.arc_subsets(1, 4, {1: 2, 2: 5, 3: 3, 4: 1}))
        if source == "dense":
            rng = random.Random(draw(st.integers(0, 2 ** 32 - 1)))
            graph = dict(graph, rows=[r | (1 << rng.randrange(4)) | (1 << rng.randrange(4)) for r in graph["rows"]])
    case = {"graph": graph, "repeats": draw(st.integers(2, 10)), "np_seed": draw(st.integers(0, 2 ** 32 - 1)),
            "verbose": draw(st.sampled_from([False, False, False, True])),
            "layout": draw(st.sampled_from([None, None, None, "F", "strided", "int32", "readonly"]))}
    if warmup is not None:
        case.update(warmup=warmup, repeats=draw(st.sampled_from([2, 2, 3, 4])))
    return case


def evaluate_graph(case):
    import numpy
    dsw = import_dsw()
    graph = case["graph"]
    k, rows = graph["k"], graph["rows"]
    acc = gens.accessor_of(graph, case.get("layout"))
    snapshot = numpy.array(acc, copy=True)
    info = analyse(rows, k)
    labels = ["k=%d" % k, info["reason"]] + (["layout:" + case["layout"]] if case.get("layout") else [])
    results = {}
    if case.get("warmup"):
        # an earlier call on another graph of the same order (its own result is not judged here)
        numpy.random.seed(case["np_seed"] ^ 0x5A5A)
        lib_call(dsw.approximate_capacity, _twice=False, accessor=gens.accessor_of({"k": k, "rows": case["warmup"]}),
                 repeats=2)
        acc = gens.accessor_of(graph, case.get("layout"))  # the pooled buffer now holds the judged graph again
        labels.append("after_a_call_on_another_graph")
    degree_list = [o.out_degree(rows, v) for v in range(len(rows)) if rows[v]]
    if info["admissible"] and degree_list and k >= 3 and max(degree_list) < 4 and \
            sum(1 for x in degree_list if x == max(degree_list)) < len(degree_list):
        labels.append("admissible_mixed_degrees_k>=3")
    numpy.random.seed(case["np_seed"])
    results["random"] = lib_call(dsw.approximate_capacity, _twice=False, accessor=acc, repeats=case["repeats"])
    results["single"] = lib_call(dsw.approximate_capacity, accessor=acc, repeats=1, process=True,
                                 verbose=bool(case.get("verbose")))
    if not numpy.array_equal(acc, snapshot):
        return bad("approximate_capacity modified the accessor", labels)
    for name, value in results.items():
        if isinstance(value, Raised):
            return bad("approximate_capacity (%s start) raised %r on an order-%d graph" % (name, value, k), labels)
    steps = len(results["single"][1]) if isinstance(results["single"], tuple) else 0
    single = float(results["single"][0]) if isinstance(results["single"], tuple) else float(results["single"])
    values = {"random(repeats=%d)" % case["repeats"]: float(results["random"]), "single": single}
    for name, value in values.items():
        if value > 2.0 + 1e-12:  # only the upper bound is claimed for arbitrary graphs (estimates may dip below 0)
            return bad("capacity %r (%s start) exceeds 2 bits per nucleotide (k=%d rows=%r)"
                       % (value, name, k, rows if len(rows) <= 16 else "..."), labels)
    if not any(rows):
        for name, value in values.items():
            if value != 0.0:
                return bad("arc-less graph has capacity %r (%s start)" % (value, name), labels)
        return Outcome(True, False, labels + ["arc_less"])
    if info["admissible"]:
        target_lo, target_hi = math.log2(info["lo"]), math.log2(info["hi"])
        for name, value in values.items():
            if value < target_lo - 1e-4 or value > target_hi + 1e-4:
                return bad("capacity %.9f (%s start) but log2 of the spectral radius is in [%.9f, %.9f] "
                           "(k=%d, cyclic component of %d vertices, np_seed=%d, rows=%r)"
                           % (value, name, target_lo, target_hi, k, info["size"], case["np_seed"],
                              rows if len(rows) <= 64 else "..."), labels)
        if steps > 5:
            labels.append("steps>5")
        if steps > 50:
            labels.append("steps>50")
    degrees = {sum(1 for j in o.live(rows, v) if rows[o.succ_table(k)[v][j]]) for v in range(len(rows)) if rows[v]}
    regular = len(degrees) == 1
    return Outcome(True, info["admissible"] and not regular and steps > 5, labels)


def lift(rows, b, k):
    """Higher-block presentation: the order-k graph whose vertices are the walks of length k-b of the order-b graph
    (as k-mers) and whose arcs extend them.  Its non-zero spectrum equals that of the base graph."""
    table_b = o.succ_table(b)
    out = [0] * (4 ** k)
    for v in range(4 ** k):
        s = o.kmer(v, k)
        state, ok = o.index(s[:b]), True
        for c in s[b:]:
            j = o.NUC.index(c)
            if not (rows[state] >> j) & 1:
                ok = False
                break
            state = table_b[state][j]
        if ok:
            out[v] = rows[state]
    # arcs into k-mers that are not walks must not exist: a target is a walk whenever the source is one
    return out


@st.composite
def lifted_cases(draw, tier):
    base = draw(gens.arc_subsets(1, 2, {1: 1, 2: 3}))
    rng = random.Random(draw(st.integers(0, 2 ** 32 - 1)))
    base = dict(base, rows=[r | (1 << rng.randrange(4)) for r in base["rows"]])
    return {"base": base, "k": draw(st.sampled_from([5, 5, 6, 6, 7] if tier != "quick" else [5, 5, 6])),
            "repeats": draw(st.integers(2, 4)), "np_seed": draw(st.integers(0, 2 ** 32 - 1))}


def evaluate_lifted(case):
    import numpy
    dsw = import_dsw()
    base, k = case["base"], case["k"]
    info = analyse(base["rows"], base["k"])
    labels = ["k=%d" % k, "base_k=%d" % base["k"], info["reason"]]
    if not info["admissible"]:
        return discard("base_graph_" + info["reason"], labels)
    rows = lift(base["rows"], base["k"], k)
    acc = gens.accessor_of({"k": k, "rows": rows})
    target_lo, target_hi = math.log2(info["lo"]), math.log2(info["hi"])
    numpy.random.seed(case["np_seed"])
    values = {"random(repeats=%d)" % case["repeats"]: lib_call(dsw.approximate_capacity, _twice=False, accessor=acc,
                                                               repeats=case["repeats"]),
              "single": lib_call(dsw.approximate_capacity, accessor=acc, repeats=1)}
    live = sum(1 for r in rows if r)
    for name, value in values.items():
        if isinstance(value, Raised):
            return bad("approximate_capacity (%s start) raised %r at order %d" % (name, value, k), labels)
        if float(value) < target_lo - 1e-4 or float(value) > target_hi + 1e-4:
            return bad("capacity %.9f (%s start) of the order-%d presentation (%d live vertices) of an order-%d graph "
                       "whose log2 spectral radius is in [%.9f, %.9f] (base rows %r)"
                       % (float(value), name, k, live, base["k"], target_lo, target_hi, base["rows"]), labels)
    if live > 256:
        labels.append("live_vertices>256")
    return Outcome(True, live > 256, labels)


@st.composite
def regular_cases(draw, tier):
    k = draw(st.sampled_from([1, 2, 2, 3, 3, 4]))
    d = draw(st.integers(1, 4))
    rng = random.Random(draw(st.integers(0, 2 ** 32 - 1)))
    density = {1: 0.5, 2: 0.75, 3: 0.92, 4: 1.0}[d]
    table = o.succ_table(k)
    kept = set()
    for _ in range(30):
        mask = {v for v in range(4 ** k) if rng.random() < density}
        kept, _, _ = o.largest_closed_subgraph(mask, k, d) if d > 1 else (
            o.largest_closed_subgraph(mask, k, 1)[0], 0, 0)
        if d == 1:
            # out-degree >= 1 fixed point only (reachability pruning is not wanted here)
            kept = set(mask)
            while True:
                nxt = {v for v in kept if any(w in kept for w in table[v])}
                if nxt == kept:
                    break
                kept = nxt
        if kept:
            break
        density = min(1.0, density + 0.1)
    if not kept:
        kept = set(range(4 ** k))
    rows = [0] * (4 ** k)
    for v in kept:
        choices = [j for j in range(4) if table[v][j] in kept]
        for j in rng.sample(choices, d):
            rows[v] |= 1 << j
    dead = [v for v in range(4 ** k) if v not in kept]
    extra = 0
    if dead and draw(st.booleans()):
        for v in kept:
            for j in range(4):
                if table[v][j] in dead and rng.random() < 0.5:
                    rows[v] |= 1 << j
                    extra += 1
    return {"graph": {"k": k, "rows": rows}, "d": d, "extra_dead_arcs": extra}


def evaluate_regular(case):
    dsw = import_dsw()
    graph, d = case["graph"], case["d"]
    k, rows = graph["k"], graph["rows"]
    table = o.succ_table(k)
    live = [v for v in range(len(rows)) if rows[v]]
    if not live or any(sum(1 for j in o.live(rows, v) if rows[table[v][j]]) != d for v in live):
        return discard("not_regular_on_live_vertices")
    value = lib_call(dsw.approximate_capacity, accessor=gens.accessor_of(graph), repeats=1)
    labels = ["d=%d" % d, "k=%d" % k, "with_dead_arcs" if case["extra_dead_arcs"] else "no_dead_arcs"]
    if isinstance(value, Raised):
        return bad("approximate_capacity raised %r on a %d-regular graph" % (value, d), labels)
    if abs(float(value) - math.log2(d)) > 1e-12:
        return bad("every live vertex has exactly %d live successors but the single-start capacity is %r, not "
                   "log2 %d = %r (k=%d, %d arcs into dead vertices, rows=%r)"
                   % (d, float(value), d, math.log2(d), k, case["extra_dead_arcs"], rows if len(rows) <= 64 else "..."),
                   labels)
    return Outcome(True, d > 1 or bool(case["extra_dead_arcs"]), labels)


@st.composite
def budget_cases(draw, tier):
    """Any graph x the documented iteration parameters: small iteration budgets make the out-of-budget (median)
    fallback the common path, on converging, slowly converging, periodic and reducible graphs alike."""
    source = draw(st.sampled_from(["arcs", "generated", "dense", "periodic", "periodic"]))
    rng = random.Random(draw(st.integers(0, 2 ** 32 - 1)))
    if source == "generated":
        spec = draw(gens.generated_graphs(1, 4, {1: 1, 2: 4, 3: 3, 4: 1}))
        graph = {"k": spec["k"], "rows": spec["rows"]}
    elif source == "periodic":
        # a random class function c: V -> Z_p; only arcs u -> w with c(w) = c(u) + 1 are kept: every cycle length is a
        # multiple of p, so the power iteration oscillates instead of converging
        k = draw(st.sampled_from([1, 2, 2, 3, 3, 4]))
        p = draw(st.sampled_from([2, 2, 3, 4]))
        table = o.succ_table(k)
        cls = [rng.randrange(p) for _ in range(4 ** k)]
        graph = {"k": k, "rows": [sum(1 << j for j in range(4) if cls[table[u][j]] == (cls[u] + 1) % p)
                                  for u in range(4 ** k)]}
    else:
        graph = draw(gens.arc_subsets(1, 4, {1: 1, 2: 5, 3: 3, 4: 1}))
        if source == "dense":
            graph = dict(graph, rows=[r | (1 << rng.randrange(4)) | (1 << rng.randrange(4)) for r in graph["rows"]])
    return {"graph": graph, "repeats": draw(st.integers(1, 5)), "np_seed": draw(st.integers(0, 2 ** 32 - 1)),
            "maximum_iteration": draw(st.sampled_from([2, 3, 4, 5, 6, 8, 10, 13, 21, 34, 55, 120, 500])),
            "tolerance_level": draw(st.sampled_from([-10, -10, -6, -8, -12, -14])),
            "source": source}


def evaluate_budget(case):
    import numpy
    dsw = import_dsw()
    graph = case["graph"]
    k, rows = graph["k"], graph["rows"]
    acc = gens.accessor_of(graph, None)
    snapshot = numpy.array(acc, copy=True)
    limit = case["maximum_iteration"]
    numpy.random.seed(case["np_seed"])
    got = lib_call(dsw.approximate_capacity, _twice=False, accessor=acc, repeats=case["repeats"], process=True,
                   tolerance_level=case["tolerance_level"], maximum_iteration=limit)
    labels = ["k=%d" % k, "source:" + case["source"], "maximum_iteration=%d" % limit]
    what = "approximate_capacity(repeats=%d, tolerance_level=%d, maximum_iteration=%d, np_seed=%d) on k=%d rows=%r" \
           % (case["repeats"], case["tolerance_level"], limit, case["np_seed"], k, rows if len(rows) <= 64 else "...")
    if isinstance(got, Raised):
        return bad("%s raised %r" % (what, got), labels)
    if not numpy.array_equal(acc, snapshot):
        return bad("%s modified the accessor" % what, labels)
    value, records = got
    records = [records] if case["repeats"] == 1 else records
    if not float(value) <= 2.0 + 1e-12:
        return bad("%s returned %r: more than 2 bits per nucleotide" % (what, float(value)), labels)
    if not any(rows) and float(value) != 0.0:
        return bad("%s: arc-less graph has capacity %r" % (what, float(value)), labels)
    longest = max(len(r) for r in records)
    if longest > limit + 2:
        return bad("%s ran %d power-iteration steps, the iteration budget is %d" % (what, longest, limit), labels)
    out_of_budget = any(len(r) > limit for r in records)
    if out_of_budget:
        labels.append("out_of_budget_fallback")
        tail = records[0][-3:]
        if len(records[0]) > limit and len(tail) == 3 and (tail[0] < tail[1] < tail[2] or tail[0] > tail[1] > tail[2]):
            labels.append("fallback_after_monotone_estimates")
    return Outcome(True, out_of_budget, labels)


SUBCHECKS = [
    SubCheck("iteration_budgets", evaluate_budget, strategy=budget_cases, examples=(3000, 40000), shards=(16, 16),
             floors={"out_of_budget_fallback": 800, "fallback_after_monotone_estimates": 200, "source:periodic": 600},
             timeout=120.0,
             rule="Arc subsets, dense arc subsets, generated graphs and constructed periodic graphs (period 2..4) of "
                  "order 1..4 x repeats 1..5 x maximum_iteration in {2..500} x tolerance_level in {-6..-14}: the "
                  "call must return without raising or modifying the accessor, the result must not exceed 2 (0 for an "
                  "arc-less graph) and no repeat may run more than maximum_iteration + 2 steps. Non-trivial: some "
                  "repeat ran out of its iteration budget (the median fallback decided the result)."),
    SubCheck("spectral_radius", evaluate_graph, strategy=graph_cases, examples=(1600, 24000), shards=(16, 16),
             floors={"admissible": 250, "steps>5": 120, "arc_less": 3, "admissible_mixed_degrees_k>=3": 100,
                     "after_a_call_on_another_graph": 150}, rule=RULE,
             timeout=120.0),
    SubCheck("regular_graphs", evaluate_regular, strategy=regular_cases, examples=(600, 6000), shards=(8, 16),
             floors={"with_dead_arcs": 100, "d=3": 50, "d=2": 50}, rule=RULE),
    SubCheck("lifted_large_orders", evaluate_lifted, strategy=lifted_cases, examples=(120, 1500), shards=(16, 16),
             floors={"live_vertices>256": 20}, rule=RULE, timeout=300.0),
    SubCheck("order1_all_graphs", evaluate_graph,
             enum=(lambda tier: 16384 if tier == "quick" else 65536,
                   lambda i, tier: (lambda g: {"graph": {"k": 1, "rows": [(g >> 12) & 15, (g >> 8) & 15, (g >> 4) & 15,
                                                                         g & 15]},
                                               "repeats": 2 + g % 3, "np_seed": g})(
                       i if tier != "quick" else 4 * i + int(__import__("os").environ.get("VERIF_SEED", "1") or 1) % 4)),
             shards=(16, 16), exhaustive_space="arc subsets of the order-1 de Bruijn graph (4 vertices): all 65,536 in "
                                               "the thorough tier, every fourth one (offset by the seed) in the quick "
                                               "tier; single deterministic start and 2..4 seeded random starts",
             rule=RULE, timeout=120.0),
]

TECHNIQUE = ("property-based testing (Hypothesis) against certified Collatz-Wielandt bounds computed per strongly "
             "connected component by an independent oracle that also decides the structural precondition")
LEVEL_TEXT = ("Generated search over 1,600 / 24,000 graphs of order 1..4 (arc subsets and generated graphs) and 600 / "
              "6,000 constructed regular graphs: on every graph the oracle classifies as admissible the capacity with "
              "2..10 seeded random starts and with the single deterministic start must be within 1e-4 of log2 of a "
              "certified spectral radius; upper bound 2, arc-less = 0 and exact log2 d on d-regular graphs (incl. "
              "arcs into dead vertices) are checked on all graphs."
              ' 3,000 / 40,000 further graphs (incl. constructed periodic ones) run with iteration budgets 2..500 and tolerance levels -6..-14: no result may exceed 2, no repeat may overrun its budget.')
LEVEL_NOTE = ("Trusted: Tarjan/period/Collatz-Wielandt code in pbt/oracles.py; numpy.linalg.eigvals only for the "
              "second eigenvalue behind a 0.85 safety margin. Graphs near the gap limit are excluded, not judged.")
