"""C19 - arc removal keeps both graph views in step over any call sequence."""
import copy

from hypothesis import strategies as st

from pbt import gens, oracles as o
from pbt.core import Outcome, Raised, SubCheck, bad, discard, import_dsw, lib_call

PROPERTY = "C19"
RULE = ("Model-based history generation: a generated graph of order 2..4 (plus arbitrary arc subsets and complete "
        "graphs of order 1..3) is turned into (accessor, latter map); a drawn sequence of (has_insertion, "
        "has_deletion) flags drives remove_nasty_arc until the sequence ends or a call raises (order 2: up to the "
        "full history; orders 3, 4: up to 30 / 12 steps). The model is a Python set of arcs; after every returning "
        "call: exactly one existing arc disappeared, its score in the scores computed BEFORE the call on copies "
        "equals the maximum, no other entry changed, accessor_to_latter_map(accessor) == latter map, the returned "
        "views equal the passed-in ones, and scores have the accessor's shape and are positive only on arcs. The "
        "whole flag sequence shrinks as one value. Non-trivial: >= 3 removals and some vertex lost its last arc.")
ASSUMPTIONS = ["the intersection score is the quantity the pinned implementation and its doctest values define (sizes of "
               "unions of (k-1)-step leaf sets for substitution pairs, insertion and deletion); reference_scores() "
               "re-derives it on Python sets and the library's scores must equal it exactly",
               "accessor_to_latter_map is the reference for 'describe the same graph' (its own correctness is C14)"]


@st.composite
def histories(draw, tier):
    source = draw(st.sampled_from(["generated", "generated", "arcs", "complete"]))
    if source == "generated":
        spec = draw(gens.generated_graphs(2, 4, {2: 5, 3: 3, 4: 1}))
        graph = {"k": spec["k"], "rows": spec["rows"]}
    elif source == "arcs":
        graph = draw(gens.arc_subsets(1, 3, {1: 2, 2: 4, 3: 2}))
    else:
        k = draw(st.sampled_from([1, 2, 2, 3]))
        graph = {"k": k, "rows": [15] * 4 ** k}
    limit = {1: 16, 2: 64, 3: 30, 4: 12}[graph["k"]] if tier != "quick" else {1: 16, 2: 40, 3: 12, 4: 5}[graph["k"]]
    mode = draw(st.sampled_from(["mixed", "both", "ins_only", "del_only", "none"]))
    steps = draw(st.integers(1, limit))
    if mode == "mixed":
        flags = draw(st.lists(st.tuples(st.booleans(), st.booleans()), min_size=steps, max_size=steps))
    else:
        pair = {"both": (True, True), "ins_only": (True, False), "del_only": (False, True), "none": (False, False)}
        flags = [pair[mode]] * steps
    return {"graph": graph, "flags": [list(f) for f in flags],
            "verbose": draw(st.sampled_from([False, False, False, True])),
            "layout": draw(st.sampled_from([None, None, None, "F", "strided", "offset"]))}


def reference_scores(rows, k, has_insertion, has_deletion):
    """The intersection score as the pinned implementation defines it, re-derived on Python sets: with L(x) the set
    of end points of all (k-1)-step walks from x, an arc u->v collects |L(v) U L(v')| for every other arc u->v' of u,
    (insertion) |L(v) U L(w)| for every arc v->w, and (deletion) |L(v) U L(u)|."""
    table = o.succ_table(k)
    n = len(rows)
    depth = k - 1
    leaves = {}

    def leaf_set(x):
        if x not in leaves:
            level = {x}
            for _ in range(depth):
                level = {table[u][j] for u in level for j in o.live(rows, u)}
            leaves[x] = level
        return leaves[x]

    scores = [[0, 0, 0, 0] for _ in range(n)]
    for u in range(n):
        arcs = o.live(rows, u)
        for a in range(len(arcs)):
            for b in range(a + 1, len(arcs)):
                size = len(leaf_set(table[u][arcs[a]]) | leaf_set(table[u][arcs[b]]))
                scores[u][arcs[a]] += size
                scores[u][arcs[b]] += size
        for j in arcs:
            v = table[u][j]
            if has_insertion:
                for jj in o.live(rows, v):
                    scores[u][j] += len(leaf_set(v) | leaf_set(table[v][jj]))
            if has_deletion:
                scores[u][j] += len(leaf_set(v) | leaf_set(u))
    return scores


def normal_map(latter_map):
    return {int(key): sorted(int(x) for x in values) for key, values in latter_map.items()}


def evaluate(case):
    import numpy
    dsw = import_dsw()
    graph = case["graph"]
    k, rows = graph["k"], graph["rows"]
    n = 4 ** k
    table = o.succ_table(k)
    accessor = gens.accessor_of(graph, case.get("layout"))
    latter_map = dsw.accessor_to_latter_map(accessor)
    model = set(o.arcs(rows, k))
    labels = ["k=%d" % k] + (["verbose"] if case.get("verbose") else []) + (
        ["layout:" + case["layout"]] if case.get("layout") else [])
    removals, emptied = 0, False
    for step, (ins, dele) in enumerate(case["flags"]):
        before_acc = accessor.copy()
        scores = lib_call(dsw.calculate_intersection_score, latter_map=copy.deepcopy(latter_map), observed_length=k,
                          has_insertion=ins, has_deletion=dele)
        where = "step %d (has_insertion=%s, has_deletion=%s, k=%d, %d arcs left)" % (step, ins, dele, k, len(model))
        if not isinstance(scores, Raised):
            current_rows = [sum(1 << j for j in range(4) if (u, table[u][j]) in model) for u in range(n)]
            expected_scores = reference_scores(current_rows, k, ins, dele)
            if tuple(scores.shape) == (n, 4) and scores.tolist() != expected_scores:
                u = next(i for i in range(n) if scores[i].tolist() != expected_scores[i])
                return bad("intersection scores of vertex %d are %r, the definition gives %r; %s"
                           % (u, scores[u].tolist(), expected_scores[u], where), labels)
            if tuple(scores.shape) != (n, 4):
                return bad("intersection scores have shape %r, the accessor has %r; %s"
                           % (tuple(scores.shape), (n, 4), where), labels)
            for v in range(n):
                for j in range(4):
                    if scores[v, j] > 0 and (v, table[v][j]) not in model:
                        return bad("positive intersection score %d at [%d,%d] where no arc exists; %s"
                                   % (scores[v, j], v, j, where), labels)
                    if scores[v, j] < 0:
                        return bad("negative intersection score at [%d,%d]; %s" % (v, j, where), labels)
        result = lib_call(dsw.remove_nasty_arc, _twice=False, accessor=accessor, latter_map=latter_map,
                          iteration=step, has_insertion=ins, has_deletion=dele,
                          verbose=bool(case.get("verbose")))
        if isinstance(result, Raised):
            labels.append("ended_by:" + result.name)
            break
        if isinstance(scores, Raised):
            return bad("calculate_intersection_score raised %r but remove_nasty_arc returned; %s" % (scores, where),
                       labels)
        new_acc, new_map, arc, _ = result
        try:
            former, latter = int(arc[0]), int(arc[1])
        except (TypeError, ValueError, IndexError):
            return bad("removed arc reported as %r; %s" % (arc, where), labels)
        if (former, latter) not in model:
            return bad("reported removal of %d -> %d, which is not an arc of the graph; %s" % (former, latter, where),
                       labels)
        changed = [(int(v), int(j)) for v, j in zip(*numpy.where(numpy.asarray(new_acc) != before_acc))]
        column = table[former].index(latter)
        if changed != [(former, column)] or int(new_acc[former, column]) != -1:
            return bad("accessor entries changed by the call: %r, expected exactly [(%d, %d)] set to -1; %s"
                       % (changed[:6], former, column, where), labels)
        if not numpy.array_equal(numpy.asarray(new_acc), numpy.asarray(accessor)):
            return bad("the returned accessor differs from the accessor passed in (arc removal is in place); %s"
                       % where, labels)
        if normal_map(new_map) != normal_map(latter_map):
            return bad("the returned latter map differs from the latter map passed in; %s" % where, labels)
        if scores[former, column] != scores.max():
            return bad("removed arc %d -> %d has score %d but the maximum intersection score before the call is %d; "
                       "%s" % (former, latter, scores[former, column], scores.max(), where), labels)
        model.discard((former, latter))
        rebuilt = normal_map(dsw.accessor_to_latter_map(accessor))
        if rebuilt != normal_map(latter_map):
            diff = sorted(set(rebuilt) ^ set(normal_map(latter_map)))
            return bad("accessor and latter map describe different graphs after removing %d -> %d: accessor gives "
                       "%r for vertex %d, latter map has %r (keys differing: %r); %s"
                       % (former, latter, rebuilt.get(former), former, normal_map(latter_map).get(former), diff[:6],
                          where), labels)
        want = {}
        for (u, w) in model:
            want.setdefault(u, []).append(w)
        if rebuilt != {u: sorted(ws) for u, ws in want.items()}:
            return bad("graph after the call is not the previous graph minus the removed arc; %s" % where, labels)
        removals += 1
        if former not in rebuilt:
            emptied = True
    labels.append("removals:%s" % ("0" if removals == 0 else ("1-2" if removals < 3 else ("3-9" if removals < 10
                                                                                           else "10+"))))
    if emptied:
        labels.append("vertex_lost_last_arc")
    flag_kinds = {tuple(f) for f in case["flags"]}
    if any(a != b for a, b in flag_kinds):
        labels.append("asymmetric_flags")
    return Outcome(True, removals >= 3 and emptied, labels)


SUBCHECKS = [
    SubCheck("removal_histories", evaluate, strategy=histories, examples=(700, 8000), shards=(16, 16),
             floors={"vertex_lost_last_arc": 60, "asymmetric_flags": 150, "removals:10+": 60, "verbose": 80,
                     "layout:F": 20, "layout:strided": 20}, rule=RULE,
             timeout=300.0),
]

TECHNIQUE = ("model-based property testing of call histories (Hypothesis-generated operation sequences against a "
             "set-of-arcs model, invariant checked after every step, sequence shrunk as one value)")
LEVEL_TEXT = ("Generated histories: 700 / 8,000 graphs (generated, arbitrary arc subsets, complete) with removal "
              "sequences of up to 40 / 64 calls at order 2 and shorter at orders 3 and 4, under all four flag "
              "combinations incl. mixed sequences; after every returning call the accessor, the latter map, the "
              "reported arc, the scores (library's and an independent re-derivation) and the arc-set model must agree "
              "exactly; verbose output and Fortran/strided/offset accessors are drawn for a share of the histories.")
LEVEL_NOTE = ("Trusted: the arc-set model; reference_scores() as the definition of the intersection score (re-derived "
              "from the pinned implementation and its doctest, compared exactly at every step); "
              "accessor_to_latter_map as the meaning of 'describe the same graph' (checked by C14).")
