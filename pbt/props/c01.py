"""C01 - encode then decode returns the original message."""
from hypothesis import strategies as st

from pbt import coding, gens
from pbt.core import Outcome, Raised, SubCheck, bad, discard

PROPERTY = "C01"
RULE = ("Hypothesis draws (well-formed coding graph of order 1..3 quick / 1..5 thorough built by construction from an "
        "arbitrary arc subset, start vertex with arcs, message as a bit string incl. empty/all-zero/leading-zero/odd "
        "shapes, permutation table or none, mode, check length) and asserts decode(encode(m)) == m with no exception "
        "(round-trip oracle). Non-trivial: non-empty strand and (>= 2 distinct out-degrees met, or a non-identity "
        "table row at an out-degree 2/3 vertex, or an out-degree-1 vertex traversed); distinct by full case.")
ASSUMPTIONS = ["graphs are arc subsets of the de Bruijn graph in which every reachable vertex has an arc and can "
               "reach a branching vertex; fast mode only without reachable out-degree 3",
               "messages are int 0/1 numpy arrays; tables have permutation rows; vt_length >= 0"]


def evaluate(case):
    if not coding.in_c01_domain(case):
        return discard("graph_outside_domain")
    bits = case["bits"]
    encoded, lookups = coding.run_encode(case)
    if encoded == "BUDGET":
        return bad("encode did not terminate within %d accessor look-ups" % lookups, ["budget"])
    if isinstance(encoded, Raised):
        return bad("encode raised %r" % encoded, ["encode_raised"])
    if case["vt"] > 0:
        if not (isinstance(encoded, tuple) and len(encoded) == 2):
            return bad("encode with vt_length=%d returned %r" % (case["vt"], encoded))
        strand, check = encoded
    else:
        strand, check = encoded, None
    if not isinstance(strand, str):
        return bad("encode returned %r instead of a strand" % (encoded,))
    labels, degrees, table_at_23 = coding.walk_classes(case, strand)
    labels.append("zero_message" if "1" not in bits else "nonzero_message")
    decoded = coding.run_decode(case, strand, check=check)
    if isinstance(decoded, Raised) or isinstance(decoded, str):
        return bad("decode(encode(m)) failed with %r; strand=%r check=%r" % (decoded, strand[:80], check), labels)
    if not coding.is_array_of_bits(decoded, len(bits)):
        return bad("decode returned %r, not a 0/1 int array of length %d" % (decoded, len(bits)), labels)
    got = "".join(str(int(x)) for x in decoded)
    if got != bits:
        return bad("round trip changed the message: %s -> %s -> %s" % (bits[:80], strand[:80], got[:80]), labels)
    nontrivial = bool(strand) and (len(degrees) >= 2 or table_at_23 or 1 in degrees)
    return Outcome(True, nontrivial, labels)


def zero_messages(max_len=40):
    return st.one_of(st.just(""), st.integers(1, max_len).map(lambda n: "0" * n))


def odd_messages(max_len):
    return st.integers(0, (max_len - 1) // 2).flatmap(
        lambda h: st.integers(0, 2 ** (2 * h + 1) - 1).map(lambda v: format(v, "b").zfill(2 * h + 1)))


def s_normal(tier):
    return coding.coding_cases(tier, fast=False)


def s_fast(tier):
    return coding.coding_cases(tier, fast=True)


def s_check(tier):
    return coding.coding_cases(tier, vt="any")


def s_zero(tier):
    return coding.coding_cases(tier, message=zero_messages()).flatmap(
        lambda c: st.sampled_from([0, 1, 2, 5, 12]).map(lambda n: dict(c, vt=n)))


def s_odd_fast(tier):
    bounds = coding.tier_bounds(tier)
    return coding.coding_cases(tier, fast=True, message=odd_messages(min(bounds["max_len"], 257)))


LONG_GRAPHS = [
    [0, 9, 9, 0, 6, 0, 0, 6, 6, 0, 0, 6, 0, 9, 9, 0],          # GC-balanced order 2: every vertex has out-degree 2
    [3, 6, 9, 12, 3, 5, 10, 12, 3, 6, 9, 12, 5, 6, 9, 10],     # out-degree 2 everywhere, other arcs
    [15, 6, 9, 15, 3, 15, 12, 7, 15, 10, 5, 15, 14, 15, 11, 13],  # mixed out-degrees 2, 3, 4
    [2, 4, 8, 1, 10, 8, 2, 8, 2, 6, 8, 2, 1, 2, 1, 4],         # well-formed, 14 of 16 vertices have out-degree 1
]


def long_case(i, tier):
    import random as _random
    rng = _random.Random(7100 + i)
    width = [1100, 1500, 2000, 2400, 1300, 1800, 2200, 2600][i % 8] + (0 if tier == "quick" else 400 * (i // 8))
    rows = LONG_GRAPHS[i % 4]
    fast = i % 8 >= 6 and all(bin(r).count("1") != 3 for r in rows)
    case = {"graph": {"k": 2, "rows": rows, "start": [1, 0, 0, 1][i % 4]},
            "bits": format(rng.getrandbits(width) | (1 << (width - 1)), "b"),
            "table": None if i % 2 else [rng.randrange(24) for _ in range(16)], "fast": fast, "vt": [0, 0, 6][i % 3]}
    if i % 5 == 0:
        case["verbose"] = True
    return case


SUBCHECKS = [
    SubCheck("normal", evaluate, strategy=s_normal, examples=(3000, 16000), shards=(8, 16),
             floors={"deg3_met": 60, "deg1_met": 60, "table_at_deg2or3": 60, "large_k": 80}, rule=RULE),
    SubCheck("fast", evaluate, strategy=s_fast, examples=(2000, 12000), shards=(6, 16),
             floors={"deg1_met": 30, "deg4_met": 30, "deg2_met": 30}, rule=RULE),
    SubCheck("with_check", evaluate, strategy=s_check, examples=(1500, 8000), shards=(4, 16),
             floors={"vt": 300}, rule=RULE),
    SubCheck("zero_and_empty", evaluate, strategy=s_zero, examples=(400, 3000), shards=(2, 8),
             floors={"zero_message": 200, "empty_strand": 200}, rule=RULE),
    SubCheck("odd_fast", evaluate, strategy=s_odd_fast, examples=(1000, 6000), shards=(4, 16),
             floors={"odd_length": 300, "deg4_met": 30}, rule=RULE),
    SubCheck("long_messages", evaluate, enum=(lambda tier: 8 if tier == "quick" else 32, long_case), shards=(8, 16),
             exhaustive_space="fixed family of 1,100..2,600-bit (thorough ..3,800) messages on four order-2 graphs "
                              "(about 1,000..2,600 informative steps; exercises depth- and length-dependent code)",
             rule=RULE, timeout=600.0),
]

TECHNIQUE = "property-based testing (Hypothesis): encode/decode round trip over constructed well-formed coding graphs"
LEVEL_TEXT = ("Generated-input search with a round-trip oracle: about 7,900 (quick) / 45,000 (thorough) cases plus a fixed family of 1,100..3,800-bit messages over "
              "well-formed arc-subset graphs of order 1..3 / 1..5 with mixed out-degrees 1..4, every start vertex "
              "class, permutation tables, both modes, empty/all-zero/odd-length messages and check lengths 1..12; "
              "class floors guarantee that out-degree 1, out-degree 3 and shuffled out-degree-2/3 vertices are "
              "actually traversed. Exploration: it samples an infinite domain and cannot show absence.")
LEVEL_NOTE = ("Trusted: the independent well-formedness predicate in pbt/oracles.py (domain filter) and numpy. A change "
              "applied consistently to encoder and decoder is invisible here by design; C05 covers it.")
