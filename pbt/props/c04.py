"""C04 - encoding is total, dead-end free and tight on generated graphs."""
import random

from hypothesis import strategies as st

from pbt import coding, gens, oracles as o
from pbt.core import Outcome, Raised, SubCheck, bad, discard, import_dsw, lib_call, mix32

PROPERTY = "C04"
RULE = ("Graphs come from the library's own generation: every order-2 mask x thresholds 1..4 whose graph exists "
        "(enumerated, every retained start vertex, deterministic pseudo-random messages), drawn masks of order 3/4 "
        "(5 thorough) and realistic built-in / user-defined filters of order 2..5 (6). encode runs on a counting "
        "accessor proxy with an explicit look-up budget; validity oracle over the output: terminates, no ValueError, "
        "len <= L*|V|, strand is a walk (independent walk oracle), last step at an out-degree >= 2 vertex, normal "
        "mode: product of radices before the last step <= message value (len <= L on t=2 graphs, <= ceil(L/2) on the "
        "complete graph), fast mode: carried bits in {L, L+1}. Non-trivial: non-zero message and (graph has an "
        "out-degree-1 vertex or generation trimmed the mask).")
ASSUMPTIONS = ["termination is decided as 'within 64*(L+2)*(|V|+2)+4096 accessor look-ups' through the proxy",
               "fast mode only from start vertices that cannot reach an out-degree-3 vertex"]


def generate(k, mask_bits, t):
    """Library generation -> rows, or None when generation (legitimately) raises ValueError."""
    import numpy
    dsw = import_dsw()
    result = lib_call(dsw.connect_coding_graph, observed_length=k,
                      vertices=gens.pooled(numpy.array(mask_bits, dtype=int), "mask"),
                      threshold=t)
    if isinstance(result, Raised):
        return result
    try:
        return gens.rows_of_accessor(result[1], k)
    except (ValueError, TypeError, IndexError) as exc:
        return Raised(TypeError("generation returned a malformed accessor: %s" % exc))


def check_encode(rows, k, start, bits, fast, table, t, labels):
    """Validity predicate over encode's output; returns an error string or None."""
    case = {"graph": {"k": k, "rows": rows, "start": start}, "bits": bits, "fast": fast, "table": table, "vt": 0}
    vertices = sum(1 for r in rows if r)
    length = len(bits)
    got, lookups = coding.run_encode(case, need_path=False)
    where = "k=%d t=%s start=%d bits=%s fast=%s" % (k, t, start, bits[:48], fast)
    if got == "BUDGET":
        return "encode did not terminate within %d look-ups (%s)" % (lookups, where)
    if isinstance(got, Raised):
        return "encode raised %r on a generated graph (%s)" % (got, where)
    strand = got
    if len(strand) > length * vertices:
        return "strand of %d nt exceeds L*|V| = %d (%s)" % (len(strand), length * vertices, where)
    states = o.walk_states(rows, k, start, strand)
    if len(states) != len(strand):
        return "strand %r leaves the graph at position %d (%s)" % (strand[:60], len(states), where)
    if not strand:
        if "1" in bits and not fast:
            return "empty strand for a non-zero message (%s)" % where
        if fast and length > 0:
            return "empty strand for %d bits in fast mode (%s)" % (length, where)
        return None
    path = [start] + states[:-1]
    degrees = [o.out_degree(rows, v) for v in path]
    if degrees[-1] < 2:
        return ("last nucleotide of %r is emitted at vertex %d with out-degree %d: not information-carrying (%s)"
                % (strand[-20:], path[-1], degrees[-1], where))
    if 1 in degrees:
        labels.append("deg1_traversed")
    if not fast:
        value = o.bits_to_int(bits)
        product = 1
        for d in degrees[:-1]:
            if d >= 2:
                product *= d
        if product > value:
            return "product of out-degrees before the last step %d exceeds the message value %d (%s)" \
                   % (product, value, where)
        if t is not None and t >= 2 and len(strand) > length:
            return "%d nt for %d bits on a threshold-%d graph (%s)" % (len(strand), length, t, where)
        if all(r == 15 for r in rows) and len(strand) > (length + 1) // 2:
            return "%d nt for %d bits on the complete graph (%s)" % (len(strand), length, where)
    else:
        carried = sum(2 if d == 4 else (1 if d == 2 else 0) for d in degrees)
        if carried not in (length, length + 1):
            return "fast-mode steps carry %d bits for a %d-bit message (%s)" % (carried, length, where)
    return None


def fast_ok(rows, k, start):
    return not any(o.out_degree(rows, v) == 3 for v in o.reachable(rows, k, start))


def det_bits(*key):
    rng = random.Random(mix32(*key))
    length = rng.choice([1, 2, 3, 5, 8, 11, 16])
    return format(rng.getrandbits(length) | (rng.getrandbits(1) << (length - 1)), "b").zfill(length)


# ------------------------------------------------------------------------------------------- exhaustive order 2

def enum_size(tier):
    return 65536


def enum_case(i, tier):
    return {"k": 2, "mask": i, "messages": 1 if tier == "quick" else 6}


def evaluate_order2(case):
    mask_bits = [(case["mask"] >> i) & 1 for i in range(16)]
    labels, nontrivial, graphs = [], False, 0
    for t in (1, 2, 3, 4):
        rows = generate(2, mask_bits, t)
        if isinstance(rows, Raised):
            if rows.type is not ValueError:
                return bad("generation raised %r (mask=%d t=%d)" % (rows, case["mask"], t))
            continue
        graphs += 1
        trimmed = {v for v in range(16) if rows[v]} != {v for v in range(16) if mask_bits[v]}
        has_deg1 = any(o.out_degree(rows, v) == 1 for v in range(16))
        for start in [v for v in range(16) if rows[v]]:
            for m in range(case["messages"]):
                bits = det_bits(case["mask"], t, start, m)
                fast = (m + start) % 2 == 1 and fast_ok(rows, 2, start)
                table = None if m % 2 == 0 else [mix32(case["mask"], v, m) % 24 for v in range(16)]
                detail = check_encode(rows, 2, start, bits, fast, table, t, labels)
                if detail:
                    return bad(detail, labels)
                if "1" in bits and (trimmed or has_deg1):
                    nontrivial = True
                labels.append("fast" if fast else "normal")
        labels.append("t=%d" % t)
        if has_deg1:
            labels.append("graph_with_deg1")
        if trimmed:
            labels.append("trimmed")
    if not graphs:
        return Outcome(True, False, ["no_graph"])
    return Outcome(True, nontrivial, sorted(set(labels)))


# ------------------------------------------------------------------------------------------- drawn masks / filters

@st.composite
def drawn_cases(draw, tier):
    kmax = 4 if tier == "quick" else 5
    source = draw(st.sampled_from(["mask", "mask", "local", "user"]))
    t = draw(st.sampled_from([1, 1, 1, 1, 2, 2, 2, 2, 3, 3, 4]))
    if source == "mask":
        k = draw(st.sampled_from([3, 3, 4] * 16 + [8] if tier == "quick" else [3, 4, 4, 5] * 4 + [6, 8]))
        densities = {1: [0.3, 0.45, 0.6, 0.75, 0.9], 2: [0.6, 0.7, 0.8, 0.9, 0.97], 3: [0.85, 0.92, 0.97, 0.99],
                     4: [0.97, 1.0]}[t]
        spec = {"mask": "".join(map(str, draw(gens.masks(k, densities))))}
    elif source == "local":
        k = draw(st.integers(2, kmax + (1 if tier != "quick" else 0)))
        spec = {"local": gens.relax_until_satisfiable(draw(gens.local_filter_cfgs(k)))}
    else:
        k = draw(st.integers(2, kmax))
        spec = {"user": draw(gens.user_filter_cfgs(k))}
    max_len = 48 if tier == "quick" else 300
    msgs = draw(st.lists(gens.messages(max_len, min_len=1), min_size=1, max_size=3 if tier == "quick" else 8))
    if draw(st.sampled_from([False] * 11 + [True])):
        # graphs rich in single-arc vertices (run limit 1, optionally balanced GC, threshold 1) with a message of a few
        # hundred bits: the walk keeps passing through forced steps, also right after its last informative one
        k, t = draw(st.sampled_from([3, 4, 4, 5])), 1
        spec = {"local": {"k": k, "run": 1, "gc": draw(st.sampled_from([None, ["0.5", "0.5"], ["0.25", "0.75"]])),
                          "motifs": None}}
        if spec["local"]["gc"] == ["0.5", "0.5"] and k % 2:
            spec["local"]["gc"] = ["0.4", "0.6"]
        msgs = msgs[:2] + [draw(gens.messages(420 if tier == "quick" else 1000, min_len=130))]
    elif k <= 5 and draw(st.sampled_from([True, False, False])):
        # one message of a few hundred bits (encoded from six start vertices only): lengths at which an
        # implementation may switch to another strategy
        msgs = msgs[:2] + [draw(gens.messages(420 if tier == "quick" else 1000, min_len=100))]
    return dict(spec, k=k, t=t, msgs=msgs, table=draw(gens.tables(k)),
                pick=draw(st.integers(0, 2 ** 32 - 1)), fast=draw(st.booleans()))


def mask_of(case):
    """Mask bits of a drawn case through the library's own find_vertices where a filter is given."""
    dsw = import_dsw()
    k = case["k"]
    if "mask" in case:
        return [int(c) for c in case["mask"]]
    flt = gens.build_local_filter(case["local"]) if "local" in case else gens.build_user_filter(case["user"])
    found = lib_call(dsw.find_vertices, observed_length=k, bio_filter=flt)
    if isinstance(found, Raised):
        return found
    return [1 if x else 0 for x in found]


def evaluate_drawn(case):
    k, t = case["k"], case["t"]
    mask_bits = mask_of(case)
    labels = ["k=%d" % k, "t=%d" % t, "src:" + ("mask" if "mask" in case else ("local" if "local" in case else "user"))]
    if isinstance(mask_bits, Raised):
        if mask_bits.type is ValueError:
            return Outcome(True, False, labels + ["no_vertices"])
        return bad("find_vertices raised %r" % mask_bits, labels)
    rows = generate(k, mask_bits, t)
    if isinstance(rows, Raised):
        if rows.type is ValueError:
            return Outcome(True, False, labels + ["no_graph"])
        return bad("generation raised %r (k=%d t=%d)" % (rows, k, t), labels)
    starts = [v for v in range(4 ** k) if rows[v]]
    trimmed = set(starts) != {v for v in range(4 ** k) if mask_bits[v]}
    has_deg1 = any(o.out_degree(rows, v) == 1 for v in starts)
    if len(starts) > 64:
        starts = random.Random(case["pick"]).sample(starts, 64)
        labels.append("starts_sampled")
    else:
        labels.append("all_starts")
    nontrivial = False
    for rank, start in enumerate(starts):
        for i, bits in enumerate(case["msgs"]):
            if len(bits) >= 100 and i >= 2:
                if rank >= 6:
                    continue
                labels.append("message>=100_bits")
                if len(bits) >= 128 and has_deg1:
                    labels.append("message>=128_bits_on_graph_with_deg1")
            fast = case["fast"] and fast_ok(rows, k, start)
            detail = check_encode(rows, k, start, bits, fast, case["table"], t, labels)
            if detail:
                return bad(detail, labels)
            labels.append("fast" if fast else "normal")
            if "1" in bits and (trimmed or has_deg1):
                nontrivial = True
    if has_deg1:
        labels.append("graph_with_deg1")
    if trimmed:
        labels.append("trimmed")
    return Outcome(True, nontrivial, sorted(set(labels)))


SUBCHECKS = [
    SubCheck("order2_all_generated", evaluate_order2, enum=(enum_size, enum_case), shards=(16, 16),
             exhaustive_space="every graph generation returns for the 65,536 order-2 masks x thresholds 1..4, every "
                              "retained start vertex, 1 (quick) / 6 (thorough) deterministic messages each",
             rule=RULE, timeout=120.0),
    SubCheck("drawn_generated", evaluate_drawn, strategy=drawn_cases, examples=(1400, 12000), shards=(16, 16),
             floors={"graph_with_deg1": 30, "trimmed": 60, "deg1_traversed": 30, "fast": 40, "src:local": 40,
                     "src:user": 40, "message>=100_bits": 200, "message>=128_bits_on_graph_with_deg1": 10}, rule=RULE,
             timeout=120.0),
    SubCheck("long_messages_generated", evaluate_drawn,
             enum=(lambda tier: 6 if tier == "quick" else 24,
                   lambda i, tier: {"k": 2, "t": 1 + i % 2, "mask": ["1111111111111111", "0110100110010110",
                                                                      "1111011111101111", "1011111111111101",
                                                                      "1110111101111111", "0111111111111110"][i % 6],
                                    "pick": i, "fast": False, "table": None,
                                    "msgs": [format((1 << ([1700, 1800, 2100, 2600, 1705, 3400][i % 6] + 7 * (i // 6)))
                                                    - 12345 - i, "b")]}),
             shards=(6, 16), exhaustive_space="fixed family of 1,700..3,400-bit messages from every retained start "
                                              "vertex of six order-2 generated graphs", rule=RULE, timeout=900.0),
]

TECHNIQUE = ("enumeration of all order-2 generated graphs plus property-based testing (Hypothesis) on drawn masks and "
             "filters; validity predicate over encode's output with termination decided by a look-up budget proxy")
LEVEL_TEXT = ("Exhaustive over everything generation returns at observed length 2 (all masks x thresholds x retained "
              "start vertices), generated search for orders 3..5 and for graphs produced from built-in and "
              "user-defined filters. Every encode runs on a counting array proxy so that non-termination is a "
              "deterministic, replayable failure; the output is judged by an independent walk oracle and the "
              "tightness inequalities of the statement. Messages are sampled.")
LEVEL_NOTE = ("Trusted: the walk oracle and out-degree arithmetic in pbt/oracles.py; the look-up budget as the "
              "definition of 'terminates'. Properties are judged on whatever generation actually returns (a wrong "
              "graph on which encoding loops is a C04 violation as well as a C03 one).")
