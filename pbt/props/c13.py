"""C13 - vertex indices are k-mers and arcs are shift-append."""
import random

from hypothesis import strategies as st

from pbt import gens, oracles as o
from pbt.core import Outcome, Raised, SubCheck, bad, import_dsw, lib_call

PROPERTY = "C13"
RULE = ("All vertices for k = 1..7 (21,844 vertices; one case = one vertex) enumerated; vertices for k = 8..40 drawn. "
        "Oracle: string manipulation on k-mers (drop first/append, drop last/prepend). For every produced graph "
        "(complete accessor, connect_valid_graph, connect_coding_graph, latter_map_to_accessor, "
        "adjacency_matrix_to_accessor, remove_nasty_arc on drawn inputs) every entry must be -1 or the j-th string "
        "successor. Non-trivial: vertex != 0 (the doctests only show vertex 0).")
ASSUMPTIONS = ["k >= 1; vertex indices in [0, 4^k)"]

OFFSETS = [0]
for _k in range(1, 8):
    OFFSETS.append(OFFSETS[-1] + 4 ** _k)


def check_vertex(k, v):
    dsw = import_dsw()
    s = o.kmer(v, k)
    got = lib_call(dsw.number_to_dna, decimal_number=v, dna_length=k)
    if got != s:
        return "number_to_dna(%d, %d) = %r, the k-mer is %r" % (v, k, got, s)
    got = lib_call(dsw.number_to_dna, decimal_number=str(v), dna_length=k)
    if got != s:
        return "number_to_dna(%r, %d) = %r, the k-mer is %r" % (str(v), k, got, s)
    for as_string in (False, True):
        got = lib_call(dsw.dna_to_number, dna_sequence=s, is_string=as_string)
        if isinstance(got, Raised) or int(got) != v or isinstance(got, str) != as_string:
            return "dna_to_number(%r, is_string=%s) = %r, the index is %d" % (s, as_string, got, v)
    want_succ = [o.index(s[1:] + c) for c in o.NUC]
    want_pred = [o.index(c + s[:-1]) for c in o.NUC]
    got = lib_call(dsw.obtain_latters, current=v, observed_length=k)
    if isinstance(got, Raised) or [int(x) for x in got] != want_succ:
        return "obtain_latters(%d, %d) = %r, successors by shift-append are %r" % (v, k, got, want_succ)
    got = lib_call(dsw.obtain_formers, current=v, observed_length=k)
    if isinstance(got, Raised) or [int(x) for x in got] != want_pred:
        return "obtain_formers(%d, %d) = %r, predecessors by shift-prepend are %r" % (v, k, got, want_pred)
    for u in want_pred:
        back = lib_call(dsw.obtain_latters, current=u, observed_length=k)
        if isinstance(back, Raised) or v not in [int(x) for x in back]:
            return "%d is a predecessor of %d but %d is not among its successors %r (k=%d)" % (u, v, v, back, k)
    for w in want_succ:
        back = lib_call(dsw.obtain_formers, current=w, observed_length=k)
        if isinstance(back, Raised) or v not in [int(x) for x in back]:
            return "%d is a successor of %d but %d is not among its predecessors %r (k=%d)" % (w, v, v, back, k)
    return None


def enum_size(tier):
    return OFFSETS[7]


def enum_case(i, tier):
    k = next(kk for kk in range(1, 8) if i < OFFSETS[kk])
    return {"k": k, "v": i - OFFSETS[k - 1]}


def evaluate_vertex(case):
    detail = check_vertex(case["k"], case["v"])
    labels = ["k=%d" % case["k"]]
    if detail:
        return bad(detail, labels)
    return Outcome(True, case["v"] != 0, labels)


def big_vertices(tier):
    return st.one_of(st.integers(8, 12), st.integers(8, 12), st.integers(13, 40)).flatmap(lambda k: st.one_of(
        st.integers(0, 4 ** k - 1), st.sampled_from([0, 1, 4 ** k - 1, 4 ** k - 4, 4 ** (k - 1), 4 ** (k - 1) - 1])
    ).map(lambda v: {"k": k, "v": v}))


# ------------------------------------------------------------------------------------------- produced graphs

def evaluate_complete(case):
    dsw = import_dsw()
    k = case["k"]
    acc = lib_call(dsw.get_complete_accessor, _hold=False, observed_length=k)  # edited below: not held for later
    if isinstance(acc, Raised):
        return bad("get_complete_accessor(%d) raised %r" % (k, acc))
    try:
        rows = gens.rows_of_accessor(acc, k)
    except ValueError as exc:
        return bad("complete accessor of order %d: %s" % (k, exc))
    if any(r != 15 for r in rows):
        v = next(i for i, r in enumerate(rows) if r != 15)
        return bad("complete accessor of order %d misses an arc at vertex %d" % (k, v))
    acc[:] = -1  # the caller owns the returned array; a later call must still return the complete graph
    # the second call runs with the documented progress flag (orders up to 8: one line of output per vertex)
    second = lib_call(dsw.get_complete_accessor, observed_length=k, **({"verbose": True} if k <= 8 else {}))
    try:
        if isinstance(second, Raised) or any(r != 15 for r in gens.rows_of_accessor(second, k)):
            return bad("get_complete_accessor(%d%s) is not complete on a second call after the caller edited the "
                       "first result" % (k, ", verbose=True" if k <= 8 else ""))
    except ValueError as exc:
        return bad("complete accessor of order %d (second call): %s" % (k, exc))
    return Outcome(True, True, ["complete", "k=%d" % k])


@st.composite
def produced_cases(draw, tier):
    k = draw(st.sampled_from([1, 2, 2, 3, 3, 4] if tier == "quick" else [1, 2, 3, 3, 4, 4, 5]))
    how = draw(st.sampled_from(["valid", "coding", "latter_map", "matrix", "nasty", "via_latter_map",
                                "matrix_extra_arc"]))
    if how in ("valid", "coding", "latter_map") and draw(st.sampled_from([False] * 9 + [True])):
        k = draw(st.sampled_from([6, 7, 8, 8]))  # vertex indices beyond 2^15
    if how in ("matrix", "matrix_extra_arc") and k > 4:
        k = 4
    if how == "matrix_extra_arc" and k < 2:
        k = 2
    if how == "nasty" and k > 3:
        k = 3
    case = {"k": k, "how": how, "verbose": draw(st.sampled_from([False, False, True]))}
    if how == "matrix_extra_arc":
        # arcs that are NOT shift-append, most of them just beside the window of the four successors
        n = 4 ** k
        extra = []
        for _ in range(draw(st.integers(1, 3))):
            u = draw(st.integers(0, n - 1))
            near = ((4 * u) % n + draw(st.integers(-6, 9))) % n
            w = draw(st.sampled_from([near, near, near, draw(st.integers(0, n - 1))]))
            extra.append([u, w])
        case["extra"] = extra
    if how in ("valid", "coding"):
        t = draw(st.integers(1, 3))
        dens = {1: None, 2: [0.6, 0.8, 0.9, 0.97], 3: [0.9, 0.97, 1.0]}[t] if how == "coding" else None
        if k >= 6 and dens is None:
            dens = [0.5, 0.8, 0.97]
        case["mask"] = "".join(map(str, draw(gens.masks(k, dens))))
        case["t"] = t
    else:
        case["rows"] = draw(gens.arc_subsets(k, k))["rows"]
        case["order_seed"] = draw(st.integers(0, 2 ** 32 - 1))
        case["threshold"] = None if k >= 5 else draw(st.sampled_from([None, None, 1, 2]))  # trimming is quadratic
        case["steps"] = draw(st.integers(1, 4))
        case["ins"], case["dele"] = draw(st.booleans()), draw(st.booleans())
    return case


def evaluate_produced(case):
    import numpy
    dsw = import_dsw()
    k, how = case["k"], case["how"]
    labels = ["how:" + how, "k=%d" % k]
    accs = []
    if how == "valid":
        mask = gens.pooled(numpy.array([int(c) for c in case["mask"]], dtype=int), "mask")
        res = lib_call(dsw.connect_valid_graph, observed_length=k, vertices=mask, verbose=bool(case.get("verbose")))
        if isinstance(res, Raised):
            return Outcome(True, False, labels + ["raised:" + res.name]) if res.type is ValueError else \
                bad("connect_valid_graph raised %r" % res, labels)
        accs.append(res)
    elif how == "coding":
        mask = gens.pooled(numpy.array([int(c) for c in case["mask"]], dtype=int), "mask")
        res = lib_call(dsw.connect_coding_graph, observed_length=k, vertices=mask, threshold=case["t"],
                       verbose=bool(case.get("verbose")))
        if isinstance(res, Raised):
            return Outcome(True, False, labels + ["raised:" + res.name]) if res.type is ValueError else \
                bad("connect_coding_graph raised %r" % res, labels)
        accs.append(res[1])
    else:
        graph = {"k": k, "rows": case["rows"]}
        acc = gens.accessor_of(graph)
        table = o.succ_table(k)
        if how == "via_latter_map":
            converted = lib_call(lambda: dsw.latter_map_to_accessor(dsw.accessor_to_latter_map(acc), k))
            if isinstance(converted, Raised):
                return bad("accessor -> latter map -> accessor raised %r" % converted, labels)
            accs.append(converted)
        elif how == "latter_map":
            rng = random.Random(case["order_seed"])
            latter_map = {}
            order = [v for v in range(4 ** k) if case["rows"][v]]
            rng.shuffle(order)
            for v in order:
                succs = [table[v][j] for j in o.live(case["rows"], v)]
                rng.shuffle(succs)  # the successor lists of a latter map are not promised to be sorted
                latter_map[v] = succs
            res = lib_call(dsw.latter_map_to_accessor, latter_map=latter_map, observed_length=k,
                           threshold=case["threshold"])
            if isinstance(res, Raised):
                return bad("latter_map_to_accessor raised %r" % res, labels)
            if case["threshold"] is None:
                try:
                    if gens.rows_of_accessor(res, k) != case["rows"]:
                        return bad("latter_map_to_accessor does not rebuild the graph from a latter map with "
                                   "unsorted successor lists (k=%d)" % k, labels)
                except ValueError as exc:
                    return bad("latter_map_to_accessor: %s" % exc, labels)
            accs.append(res)
        elif how == "matrix_extra_arc":
            matrix = numpy.zeros((4 ** k, 4 ** k), dtype=int)
            for (u, w) in o.arcs(case["rows"], k):
                matrix[u, w] = 1
            illegal = [(u, w) for u, w in case["extra"] if w not in table[u]]
            for u, w in case["extra"]:
                matrix[u, w] = 1
            res = lib_call(dsw.adjacency_matrix_to_accessor, matrix=matrix)
            labels.append("illegal_arcs" if illegal else "extra_arcs_legal")
            if isinstance(res, Raised):
                if res.type is ValueError and illegal:
                    return Outcome(True, True, labels + ["rejected"])
                return bad("adjacency_matrix_to_accessor raised %r (extra arcs %r, illegal %r)"
                           % (res, case["extra"], illegal), labels)
            accs.append(res)  # whatever is converted must obey shift-append (that it is rejected at all is C14's claim)
        elif how == "matrix":
            matrix = numpy.zeros((4 ** k, 4 ** k), dtype=int)
            for (u, w) in o.arcs(case["rows"], k):
                matrix[u, w] = 1
            res = lib_call(dsw.adjacency_matrix_to_accessor, matrix=matrix)
            if isinstance(res, Raised):
                return bad("adjacency_matrix_to_accessor raised %r on a legal matrix" % res, labels)
            accs.append(res)
        else:
            if not any(case["rows"]):
                return Outcome(True, False, labels + ["empty"])
            latter_map = dsw.accessor_to_latter_map(acc)
            for _ in range(case["steps"]):
                res = lib_call(dsw.remove_nasty_arc, _twice=False, accessor=acc, latter_map=latter_map,
                               has_insertion=case["ins"], has_deletion=case["dele"])
                if isinstance(res, Raised):
                    labels.append("nasty_raised")
                    break
                accs.append(numpy.array(res[0], copy=True))
    if case.get("verbose") and how in ("valid", "coding"):
        labels.append("verbose")
    for acc in accs:
        try:
            gens.rows_of_accessor(numpy.asarray(acc), k)
        except ValueError as exc:
            return bad("graph produced by %s violates shift-append: %s (k=%d)" % (how, exc, k), labels)
    return Outcome(True, bool(accs), labels)


SUBCHECKS = [
    SubCheck("all_vertices_k1_7", evaluate_vertex, enum=(enum_size, enum_case), shards=(16, 16),
             exhaustive_space="all 21,844 vertices of observed lengths 1..7: index<->k-mer, successors, predecessors, "
                              "and the predecessor/successor converse", rule=RULE),
    SubCheck("vertices_k8_12", evaluate_vertex, strategy=big_vertices, examples=(1500, 20000), shards=(4, 16),
             rule=RULE),
    SubCheck("complete_accessor", evaluate_complete, enum=(lambda tier: 6 if tier == "quick" else 9,
                                                           lambda i, tier: {"k": [1, 2, 3, 4, 5, 6, 7, 9, 11][i]}),
             shards=(6, 9), timeout=900.0,
             exhaustive_space="complete accessors of order 1..6 (thorough: also 7, 9 and 11 = 4,194,304 rows), every entry", rule=RULE),
    SubCheck("produced_graphs", evaluate_produced, strategy=produced_cases, examples=(1200, 12000), shards=(8, 16),
             floors={"how:valid": 80, "how:coding": 80, "how:latter_map": 80, "how:matrix": 80, "how:nasty": 80,
                     "how:via_latter_map": 80, "illegal_arcs": 60, "verbose": 60,
                     "k=8": 6},
             rule=RULE),
]

TECHNIQUE = ("complete enumeration of all vertices for k <= 7 plus property-based testing (Hypothesis) for k = 8..40 "
             "and for every graph-producing function, against a string-manipulation oracle on k-mers")
LEVEL_TEXT = ("Exhaustive for observed lengths 1..7 (every vertex: index/k-mer conversion both ways and both types, "
              "successor and predecessor lists, converse relation), sampled for 8..40; every accessor produced by "
              "the six graph-building/converting functions on generated inputs is checked entry by entry against "
              "string shift-append.")
LEVEL_NOTE = "Trusted: base-4 string rendering in pbt/oracles.py (kmer/index), checked against each other by the run."
