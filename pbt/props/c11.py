"""C11 - vertex discovery and the valid graph mirror the filter exactly."""
from hypothesis import strategies as st

from pbt import gens, oracles as o
from pbt.core import Outcome, Raised, SubCheck, bad, import_dsw, lib_call

PROPERTY = "C11"
RULE = ("find_vertices: user-defined filters written to the documented interface valid(self, dna_string) "
        "(k-mer sets incl. singletons and the empty set, regional GC, forbidden substrings, purine limit) and "
        "built-in local filters, k = 1..6; oracle = the drawn predicate applied to k-mers enumerated by "
        "string product. connect_valid_graph: all 65,536 order-2 masks enumerated (dtype alternating), masks of order "
        "1, 3, 4, 5 drawn, None and the empty mask; oracle = induced sub-graph by string successors. Non-trivial: the "
        "filter accepts a proper non-empty subset / some arc is dropped because its target is unmarked.")
ASSUMPTIONS = ["user filters implement valid(self, dna_string) and return a bool (or derive from LocalBioFilter and "
               "keep its signature); masks are bool or integer arrays in which a marked vertex is any non-zero cell"]


@st.composite
def filter_cases(draw, tier):
    k = draw(st.sampled_from([1, 2, 2, 3, 3, 4, 4, 5, 6, 6]))
    kind = draw(st.sampled_from(["user", "user", "local", "sparse", "empty"]))
    if kind == "user":
        return {"k": k, "user": draw(gens.user_filter_cfgs(k))}
    if kind == "local":
        cfg = draw(gens.local_filter_cfgs(k, decidable=False))
        case = {"k": k, "local": cfg, "verbose": draw(st.booleans())}
        variant = draw(st.sampled_from(["same_window", "same_window", "other_window", "subclass"]))
        if variant == "other_window":
            # the filter's own window need not equal the k-mer length handed to find_vertices
            window = draw(st.sampled_from([max(1, k - 1), k + 1, k + 2, 2 * k]))
            case["local"] = dict(cfg, k=window)
            case["then_window"] = draw(st.sampled_from([k, window + 1, max(1, window - 1)]))
        elif variant == "subclass":
            case["subclass_forbids"] = draw(st.text(alphabet="ACGT", min_size=1, max_size=min(k, 3)))
        return case
    if kind == "sparse":
        count = draw(st.integers(1, 3))
        members = sorted(set(draw(st.lists(st.integers(0, 4 ** k - 1), min_size=count, max_size=count))))
        return {"k": k, "user": {"kind": "set", "k": k, "members": members}}
    return {"k": k, "user": {"kind": "forbidden", "k": k, "subs": ["A", "C", "G", "T"]}}


def evaluate_find(case):
    dsw = import_dsw()
    k = case["k"]
    labels = ["k=%d" % k]
    if "user" in case:
        predicate = gens.user_predicate(case["user"])
        flt = gens.build_user_filter(case["user"])
        expected = [bool(predicate(o.kmer(v, k))) for v in range(4 ** k)]
        labels.append("user:" + case["user"]["kind"])
    else:
        cfg = case["local"]
        built = lib_call(gens.build_local_filter, cfg)
        if isinstance(built, Raised):
            if built.type is ValueError:
                return Outcome(True, False, labels + ["ctor_rejected"])
            return bad("LocalBioFilter constructor raised %r" % built, labels)
        flt = built
        expected = [o.ref_local_filter(cfg, o.kmer(v, k), only_last=True) for v in range(4 ** k)]
        labels.append("local")
        if cfg["k"] != k:
            labels.append("window!=k")
        if case.get("subclass_forbids"):
            # a user filter derived from the built-in one: extra forward-only rule on top of the inherited verdict
            forbidden = case["subclass_forbids"]

            class Derived(type(built)):
                def valid(self, dna_sequence, only_last=True):
                    return super().valid(dna_sequence, only_last=only_last) and forbidden not in dna_sequence

            flt = Derived(observed_length=built.observed_length, max_homopolymer_runs=built.max_homopolymer_runs,
                          gc_range=built.gc_range, undesired_motifs=built.undesired_motifs)
            expected = [None if e is None else (e and forbidden not in o.kmer(v, k)) for v, e in enumerate(expected)]
            labels.append("local_subclass")
    got = lib_call(dsw.find_vertices, observed_length=k, bio_filter=flt, verbose=bool(case.get("verbose")))
    if case.get("then_window") and not isinstance(got, Raised):
        # a second filter with the same rules but another window, same k, same process: its own verdicts count
        other_cfg = dict(case["local"], k=case["then_window"])
        other = lib_call(gens.build_local_filter, other_cfg)
        if not isinstance(other, Raised):
            second = lib_call(dsw.find_vertices, observed_length=k, bio_filter=other)
            want = [o.ref_local_filter(other_cfg, o.kmer(v, k), only_last=True) for v in range(4 ** k)]
            if isinstance(second, Raised):
                if second.type is not ValueError or any(w is True for w in want):
                    return bad("find_vertices raised %r for the second filter %r (k=%d)" % (second, other_cfg, k),
                               labels)
            else:
                for v in range(4 ** k):
                    if want[v] is not None and bool(second[v]) != want[v]:
                        return bad("after a call with window %d, find_vertices(k=%d) with the same rules and window "
                                   "%d marks %s as %s, the filter says %s (%r)"
                                   % (case["local"]["k"], k, case["then_window"], o.kmer(v, k), bool(second[v]),
                                      want[v], other_cfg), labels)
            labels.append("two_windows_in_sequence")
    decided = [e for e in expected if e is not None]
    if any(e is None for e in expected):
        labels.append("float_boundary_kmers")
    if isinstance(got, Raised):
        if got.type is not ValueError:
            return bad("find_vertices raised %r for %r" % (got, case), labels)
        if any(e is True for e in expected):
            return bad("find_vertices raised ValueError although the filter accepts %d k-mer(s), e.g. %r (k=%d)"
                       % (sum(1 for e in expected if e), o.kmer(expected.index(True), k), k), labels)
        return Outcome(True, all(e is False for e in expected), labels + ["none_accepted"])
    if len(got) != 4 ** k:
        return bad("find_vertices returned %d entries for k=%d" % (len(got), k), labels)
    if not any(e for e in expected) and all(e is not None for e in expected):
        return bad("find_vertices returned a mask although the filter accepts no k-mer (k=%d)" % k, labels)
    for v in range(4 ** k):
        if expected[v] is not None and bool(got[v]) != expected[v]:
            return bad("find_vertices marks index %d (%s) as %s but the filter says %s (k=%d, %r)"
                       % (v, o.kmer(v, k), bool(got[v]), expected[v], k,
                          case.get("user", case.get("local"))), labels)
    accepted = sum(1 for e in decided if e)
    if accepted <= 2:
        labels.append("very_sparse")
        if k >= 6:
            labels.append("very_sparse_k6")
    nontrivial = 0 < accepted < len(expected)
    return Outcome(True, nontrivial, labels)


# ------------------------------------------------------------------------------------------- valid graph

def check_valid_graph(k, bits, as_bool, verbose=False, dtype=None):
    import numpy
    dsw = import_dsw()
    n = 4 ** k
    if dtype in ("list", "tuple"):
        mask = numpy.array(bits, dtype=int)  # snapshot carrier; the call itself gets a plain Python sequence
    else:
        if dtype in ("strided", "readonly"):
            mask = gens.pooled(gens.flat_variant(numpy.array(bits, dtype=bool if as_bool else int), dtype), "mask")
        else:
            mask = gens.pooled(numpy.array(bits, dtype=dtype or (bool if as_bool else int)), "mask")
    before = mask.tobytes()
    argument = mask
    if dtype == "list":
        argument = [int(b) for b in bits]
    elif dtype == "tuple":
        argument = tuple(bool(b) for b in bits)
    got = lib_call(dsw.connect_valid_graph, observed_length=k, vertices=argument, verbose=verbose)
    if mask.tobytes() != before or (dtype == "list" and argument != [int(b) for b in bits]):
        return "connect_valid_graph modified the mask", False
    marked = {i for i, b in enumerate(bits) if b}
    if not marked:
        if isinstance(got, Raised) and got.type is ValueError:
            return None, True
        return "empty mask: expected ValueError, got %r" % (got,), True
    if isinstance(got, Raised):
        return "connect_valid_graph raised %r on a non-empty mask (k=%d)" % (got, k), True
    dropped = False
    if tuple(got.shape) != (n, 4):
        return "valid graph has shape %r" % (tuple(got.shape),), True
    if k >= 6:
        try:
            got_rows = gens.rows_of_accessor(got, k)
        except ValueError as exc:
            return "valid graph: %s (k=%d)" % (exc, k), True
        want_rows = o.rows_from_mask(marked, k)
        if got_rows != want_rows:
            v = next(i for i in range(n) if got_rows[i] != want_rows[i])
            return ("valid graph row %d (%s) has arcs %s, the induced sub-graph has %s (k=%d)"
                    % (v, o.kmer(v, k), o.live(got_rows, v), o.live(want_rows, v), k)), True
        return None, True
    table = o.succ_table(k)
    for u in range(n):
        for j in range(4):
            w = table[u][j]
            want = w if (u in marked and w in marked) else -1
            if u in marked and w not in marked:
                dropped = True
            if int(got[u, j]) != want:
                return ("valid graph entry [%d,%d] (%s -> %s) is %d, expected %d (k=%d)"
                        % (u, j, o.kmer(u, k), o.kmer(w, k), int(got[u, j]), want, k)), True
    return None, dropped


def evaluate_valid_order2(case):
    bits = [(case["mask"] >> i) & 1 for i in range(16)]
    detail, nontrivial = check_valid_graph(2, bits, case["mask"] % 2 == 0)
    if detail:
        return bad(detail + " mask=%d" % case["mask"])
    return Outcome(True, nontrivial, ["k=2", "empty_mask" if not any(bits) else "mask"])


@st.composite
def valid_cases(draw, tier):
    k = draw(st.sampled_from([1, 3, 3, 4, 4, 5, 6, 7, 8] if tier == "quick" else [1, 3, 4, 5, 5, 6, 7, 8, 8, 9]))
    kind = draw(st.sampled_from(["mask", "mask", "mask", "mask", "empty", "none", "single", "values>1"]))
    if k >= 6 and kind in ("empty", "none", "single"):
        kind = "mask"
    if kind == "mask":
        bits = draw(gens.masks(k))
    elif kind == "values>1":
        # integer masks whose marked cells hold other non-zero values (e.g. the sum of two masks): marked = non-zero
        rng = __import__("random").Random(draw(st.integers(0, 2 ** 32 - 1)))
        bits = [b * rng.choice([1, 2, 3]) for b in draw(gens.masks(k))]
    elif kind == "single":
        v = draw(st.integers(0, 4 ** k - 1))
        bits = [1 if i == v else 0 for i in range(4 ** k)]
    else:
        bits = [0] * (4 ** k)
    return {"k": k, "bits": "".join(map(str, bits)), "bool": draw(st.booleans()) and kind != "values>1",
            "none": kind == "none", "verbose": k <= 7 and draw(st.integers(0, 3)) == 0,
            "dtype": draw(st.sampled_from([None, None, None, "uint8", "int8", "int32", "list", "tuple", "strided",
                                           "readonly"]))
            if kind != "values>1" else None,
            "full": draw(st.sampled_from([False] * 9 + [True]))}


def evaluate_valid_drawn(case):
    dsw = import_dsw()
    k = case["k"]
    if case["none"]:
        got = lib_call(dsw.connect_valid_graph, observed_length=k, vertices=None)
        if isinstance(got, Raised) and got.type is ValueError:
            return Outcome(True, True, ["none_mask"])
        return bad("connect_valid_graph(vertices=None) gave %r instead of ValueError" % (got,))
    bits = [int(c) for c in case["bits"]]
    if case.get("full") and not case["none"]:
        bits = [1] * len(bits)  # the complete mask: 4^k marked vertices (a multiple of 256 from order 4 on)
    detail, nontrivial = check_valid_graph(k, bits, case["bool"], verbose=bool(case.get("verbose")),
                                           dtype=case.get("dtype"))
    labels = ["k=%d" % k, "empty_mask" if not any(bits) else "mask"]
    if any(b > 1 for b in bits):
        labels.append("mask_values>1")
    if case.get("verbose"):
        labels.append("verbose")
    if case.get("dtype"):
        labels.append("mask_dtype:" + case["dtype"])
        if case["dtype"] in ("list", "tuple"):
            labels.append("mask_is_python_sequence")
    if case.get("full"):
        labels.append("complete_mask")
    if detail:
        return bad(detail, labels)
    return Outcome(True, nontrivial, labels)


SUBCHECKS = [
    SubCheck("find_vertices", evaluate_find, strategy=filter_cases, examples=(2500, 25000), shards=(16, 16),
             floors={"user:set": 200, "user:regional_gc": 100, "user:forbidden": 100, "local": 200,
                     "none_accepted": 50, "very_sparse": 80, "k=6": 100, "very_sparse_k6": 15, "window!=k": 40,
                     "two_windows_in_sequence": 30, "local_subclass": 40},
             rule=RULE),
    SubCheck("valid_graph_order2", evaluate_valid_order2, enum=(lambda tier: 65536,
                                                               lambda i, tier: {"k": 2, "mask": i}),
             shards=(16, 16), exhaustive_space="connect_valid_graph on all 65,536 order-2 masks, dtype alternating",
             rule=RULE),
    SubCheck("valid_graph_drawn", evaluate_valid_drawn, strategy=valid_cases, examples=(1200, 12000),
             shards=(8, 16), floors={"none_mask": 30, "empty_mask": 30, "k=4": 60, "k=8": 20, "mask_values>1": 40}, rule=RULE),
]

TECHNIQUE = ("property-based testing (Hypothesis) with user-defined filter classes as generated inputs, plus complete "
             "enumeration of all order-2 masks, against a string-enumeration oracle")
LEVEL_TEXT = ("Generated search over filters (user-defined classes following the documented interface, built-in "
              "configurations, very sparse and empty acceptance sets) for k = 1..6, comparing every mask entry "
              "with the predicate applied to the enumerated k-mer and the ValueError contract; exhaustive comparison "
              "of connect_valid_graph with the induced sub-graph for all order-2 masks and sampled for orders 1, 3..5.")
LEVEL_NOTE = ("Trusted: k-mer enumeration in pbt/oracles.py; for built-in filters the documented predicate in "
              "pbt/oracles.py (float-boundary-ambiguous k-mers are not asserted and are counted).")
