"""C02 - every emitted strand obeys the biochemical constraints it was generated for."""
import random

from hypothesis import strategies as st

from pbt import coding, gens, oracles as o
from pbt.core import Outcome, Raised, SubCheck, bad, discard, import_dsw, lib_call
from pbt.props import c04

PROPERTY = "C02"
RULE = ("Filters: window-decidable built-in configurations (run limit none / 1..k-1, GC ranges incl. degenerate and "
        "asymmetric, motif sets up to length k) and user-defined predicates written to the documented interface "
        "(k-mer sets, regional GC, forward-only forbidden substrings, purine limit), k = 2..5 (6 thorough), "
        "thresholds 1..4; the graph is built by the library (find_vertices -> connect_coding_graph) and every "
        "retained start vertex (all when <= 64, else 64 drawn) encodes drawn messages with and without a table in "
        "both modes. Oracle: every length-k window of start_kmer+strand must satisfy the filter's own verdict AND "
        "the independent predicate; for built-in configurations strand and start_kmer+strand must pass the "
        "whole-sequence check when at least k long. Constructor: all (k, run, motif-length) combinations for "
        "k = 1..8 enumerated: accepted => window-decidable. Non-trivial: strand length >= k, the filter rejects at "
        "least one k-mer, and the graph was trimmed or has mixed out-degrees.")
ASSUMPTIONS = ["short strands (fewer than k nucleotides) fall under the filter's short-string rule, which the "
               "statement does not cover, so only the prefixed strand is judged then",
               "windows whose documented verdict hinges on a float-boundary-ambiguous comparison are judged by the "
               "filter's own verdict only"]
KNOWN_KEY = "localfilter-ctor-run-equals-window"


@st.composite
def strand_cases(draw, tier):
    kmax = 5 if tier == "quick" else 6
    k = draw(st.sampled_from([2, 3, 3, 4, 4, 5] * 3 + [7] + ([6, 6, 6, 8] if tier != "quick" else [])))
    if draw(st.booleans()):
        spec = {"local": gens.relax_until_satisfiable(draw(gens.local_filter_cfgs(k, decidable=True)))}
    else:
        spec = {"user": draw(gens.user_filter_cfgs(k))}
    max_len = 48 if tier == "quick" else 200
    msgs = draw(st.lists(gens.messages(max_len, min_len=1), min_size=1, max_size=3 if tier == "quick" else 6))
    if draw(st.sampled_from([True, False, False])):
        # one long message: strands of dozens of windows (the whole-sequence check then sees 24+ windows)
        msgs = msgs[:2] + [draw(gens.messages(420 if tier == "quick" else 900, min_len=260))]
    return dict(spec, k=k, t=draw(st.sampled_from([1, 1, 1, 2, 2, 2, 3, 4])), msgs=msgs,
                table=draw(gens.tables(k)), pick=draw(st.integers(0, 2 ** 32 - 1)), fast=draw(st.booleans()))


def evaluate_strands(case):
    k, t = case["k"], case["t"]
    labels = ["k=%d" % k, "t=%d" % t, "src:" + ("local" if "local" in case else "user:" + case["user"]["kind"])]
    if "local" in case:
        flt = gens.build_local_filter(case["local"])
        own = lambda s: flt.valid(s)  # noqa: E731
        ref = lambda s: o.ref_local_filter(case["local"], s)  # noqa: E731
    else:
        flt = gens.build_user_filter(case["user"])
        own = lambda s: flt.valid(s)  # noqa: E731
        predicate = gens.user_predicate(case["user"])
        ref = lambda s: bool(predicate(s))  # noqa: E731
    mask_bits = c04.mask_of(case)
    if isinstance(mask_bits, Raised):
        if mask_bits.type is ValueError:
            return Outcome(True, False, labels + ["no_vertices"])
        return bad("find_vertices raised %r for %r" % (mask_bits, case.get("local", case.get("user"))), labels)
    rows = c04.generate(k, mask_bits, t)
    if isinstance(rows, Raised):
        if rows.type is ValueError:
            return Outcome(True, False, labels + ["no_graph"])
        return bad("generation raised %r" % rows, labels)
    starts = [v for v in range(4 ** k) if rows[v]]
    rejected_some = sum(mask_bits) < 4 ** k
    trimmed = set(starts) != {v for v in range(4 ** k) if mask_bits[v]}
    mixed = len({o.out_degree(rows, v) for v in starts}) >= 2
    if len(starts) > 64:
        starts = random.Random(case["pick"]).sample(starts, 64)
    nontrivial = False
    for rank, start in enumerate(starts):
        for i, bits in enumerate(case["msgs"]):
            if len(bits) > 250 and rank >= 6:
                continue  # the long message is encoded from six start vertices only
            fast = case["fast"] and c04.fast_ok(rows, k, start)
            table = case["table"] if (i + start) % 2 == 0 else None
            ccase = {"graph": {"k": k, "rows": rows, "start": start}, "bits": bits, "fast": fast, "table": table,
                     "vt": 0, "after_failure": (i + start) % 3 == 0, "verbose": (i + start) % 7 == 0}
            strand, _ = coding.run_encode(ccase)
            if isinstance(strand, Raised) or strand == "BUDGET":
                labels.append("encode_failed")  # totality is C04's statement
                continue
            full = o.kmer(start, k) + strand
            where = "filter %r, k=%d t=%d start=%s bits=%s table=%s fast=%s" \
                    % (case.get("local", case.get("user")), k, t, o.kmer(start, k), bits[:40],
                       table is not None, fast)
            for pos in range(len(full) - k + 1):
                window = full[pos: pos + k]
                verdict = lib_call(own, window, _thread=False)
                if verdict is not True:
                    return bad("window %r (position %d of start_kmer+strand %r) fails the filter's own check: %r; %s"
                               % (window, pos, full[:80], verdict, where), labels)
                want = ref(window)
                if want is False:
                    return bad("window %r (position %d of start_kmer+strand %r) violates the constraints the graph "
                               "was generated for (independent predicate); %s" % (window, pos, full[:80], where),
                               labels)
                if want is None:
                    labels.append("float_boundary_window")
            if "local" in case:
                for name, text in (("strand", strand), ("start_kmer+strand", full)):
                    if len(text) >= k:
                        verdict = lib_call(flt.valid, text, only_last=False)
                        if verdict is not True and o.ref_local_filter(case["local"], text) is not None:
                            return bad("whole-sequence check of the %s %r fails (%r) for a window-decidable "
                                       "configuration; %s" % (name, text[:80], verdict, where), labels)
                labels.append("whole_sequence_checked")
                if len(strand) >= 24 * k:
                    labels.append("whole_sequence_windows>=24")
            if len(strand) >= k and rejected_some and (trimmed or mixed):
                nontrivial = True
            labels.append("fast" if fast else "normal")
            labels.append("table" if table is not None else "no_table")
    if trimmed:
        labels.append("trimmed")
    if mixed:
        labels.append("mixed_out_degrees")
    return Outcome(True, nontrivial, sorted(set(labels)))


# ------------------------------------------------------------------------------------------- constructor

MOTIF_SHAPES = [None, [1], [0], [0, 1], [1, 2], [-1], [2]]


def ctor_cases():
    out = []
    for k in range(1, 9):
        for run in [None] + list(range(0, k + 3)):
            for shape in MOTIF_SHAPES:
                out.append({"k": k, "run": run,
                            "motif_lengths": None if shape is None else [max(1, k + d) for d in shape]})
    return out


CTOR = ctor_cases()


def evaluate_ctor(case):
    dsw = import_dsw()
    k, run = case["k"], case["run"]
    motifs = None if case["motif_lengths"] is None else [("ACGT" * 4)[:n] for n in case["motif_lengths"]]
    built = lib_call(dsw.LocalBioFilter, observed_length=k, max_homopolymer_runs=run, gc_range=[0.25, 0.75],
                     undesired_motifs=motifs)
    decidable = (run is None or run < k) and (motifs is None or all(len(m) <= k for m in motifs))
    labels = ["decidable" if decidable else "not_decidable"]
    if isinstance(built, Raised):
        if built.type is not ValueError:
            return bad("LocalBioFilter(%r) raised %r" % (case, built), labels)
        return Outcome(True, not decidable, labels + ["rejected"])
    labels.append("accepted")
    if not decidable:
        detail = ("LocalBioFilter(observed_length=%d, max_homopolymer_runs=%r, undesired_motifs=%r) is accepted "
                  "although its rules are not decidable inside one window" % (k, run, motifs))
        if run is not None and run == k and (motifs is None or all(len(m) <= k for m in motifs)):
            return bad(detail, labels, known=KNOWN_KEY)
        return bad(detail, labels)
    return Outcome(True, True, labels)


@st.composite
def ctor_drawn_cases(draw, tier):
    k = draw(st.integers(1, 8))
    run = draw(st.sampled_from([None, None] + list(range(0, k + 3))))
    count = draw(st.integers(0, 4))
    motifs = draw(st.lists(st.text(alphabet="ACGT", min_size=1, max_size=k + 3), min_size=count, max_size=count))
    return {"k": k, "run": run, "motifs": motifs if (count or draw(st.booleans())) else None}


def evaluate_ctor_drawn(case):
    dsw = import_dsw()
    k, run, motifs = case["k"], case["run"], case["motifs"]
    built = lib_call(dsw.LocalBioFilter, observed_length=k, max_homopolymer_runs=run, gc_range=None,
                     undesired_motifs=motifs)
    decidable = (run is None or run < k) and (motifs is None or all(len(m) <= k for m in motifs))
    labels = ["decidable" if decidable else "not_decidable"]
    if motifs and len(motifs) >= 2 and max(motifs) != max(motifs, key=len):
        labels.append("longest_motif_not_lexicographic_max")
    if isinstance(built, Raised):
        if built.type is not ValueError:
            return bad("LocalBioFilter(%r) raised %r" % (case, built), labels)
        return Outcome(True, not decidable, labels + ["rejected"])
    labels.append("accepted")
    if not decidable:
        detail = ("LocalBioFilter(observed_length=%d, max_homopolymer_runs=%r, undesired_motifs=%r) is accepted "
                  "although its rules are not decidable inside one window" % (k, run, motifs))
        if run is not None and run == k and (motifs is None or all(len(m) <= k for m in motifs)):
            return bad(detail, labels, known=KNOWN_KEY)
        return bad(detail, labels)
    return Outcome(True, True, labels)


SUBCHECKS = [
    SubCheck("strands_obey_filter", evaluate_strands, strategy=strand_cases, examples=(2500, 15000), shards=(16, 16),
             floors={"whole_sequence_checked": 150, "whole_sequence_windows>=24": 120, "k=7": 60, "src:local": 200, "src:user:forbidden": 40, "src:user:set": 40,
                     "trimmed": 40, "mixed_out_degrees": 100, "fast": 60, "table": 150}, rule=RULE, timeout=180.0),
    SubCheck("constructor", evaluate_ctor, enum=(lambda tier: len(CTOR), lambda i, tier: CTOR[i]), shards=(4, 4),
             exhaustive_space="all combinations of observed length 1..8, run limit none/0..k+2 and motif-length "
                              "shapes {none, k, k-1, k+1, k+2, mixed}", rule=RULE),
    SubCheck("constructor_drawn", evaluate_ctor_drawn, strategy=ctor_drawn_cases, examples=(3000, 30000),
             shards=(8, 16), floors={"longest_motif_not_lexicographic_max": 200, "accepted": 300, "rejected": 300},
             rule=RULE),
]

TECHNIQUE = ("property-based testing (Hypothesis) over generated filters (built-in and user-defined classes) pushed "
             "through the library's own graph generation and encoder, judged by an independent window oracle; "
             "enumeration of constructor configurations")
LEVEL_TEXT = ("Generated search, 2,500 / 15,000 filters x up to 64 start vertices x 1..6 messages: every window of "
              "start_kmer+strand is checked against the filter itself and against an independent predicate, and the "
              "whole-sequence check of strand and prefixed strand for built-in window-decidable configurations, with "
              "and without tables, both modes, thresholds 1..4. The constructor claim is enumerated for k = 1..8; "
              "the one accepted non-decidable configuration (run limit == window) is a recorded known finding, any "
              "other is a violation.")
LEVEL_NOTE = ("Trusted: the independent local-filter predicate and the user-predicate evaluators; graphs are whatever "
              "the library generates (generation correctness is C03/C11).")
