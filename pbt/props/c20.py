"""C20 - library calls are stateless and never modify their arguments."""
import copy
import json
import os
import random
import subprocess
import sys

from hypothesis import strategies as st

from pbt import gens, history, oracles as o
from pbt.core import Outcome, REPO, SubCheck, VERIF, bad

PROPERTY = "C20"
RULE = ("Model-based history generation: one shared bundle (well-formed coding graph of order 1..3 with start vertex, "
        "message, shuffle table, vertex mask, latter map, adjacency matrix, local filter, strand, corrupted strand, "
        "decimal number) and a drawn sequence of 4..14 calls out of 30 public functions with drawn options (verbose "
        "on/off wherever accepted, numpy seed for the randomised capacity call, seed for shuffles). Oracles: (1) "
        "byte-level snapshots of every shared argument before == after every call; (2) every recorded result equals "
        "the result of the same call executed in REVERSE order on a freshly built bundle in-process, and (for a "
        "drawn share of histories) in a fresh interpreter; results the caller owns are overwritten after recording, "
        "so any cached or shared return value corrupts later calls; (3) the same call with verbose flipped returns "
        "the same value and does not raise. Non-trivial: >= 4 calls of >= 3 different functions.")
ASSUMPTIONS = ["arc removal is exercised only on objects the caller owns (fresh results), as it works in place",
               "result equality is exact on a JSON normalisation (arrays with dtype kind, floats by repr)"]

VERBOSE_OPS = {"encode", "decode", "accessor_to_latter_map", "latter_map_to_accessor", "remove_useless",
               "accessor_to_adjacency_matrix", "adjacency_matrix_to_accessor", "get_complete_accessor",
               "find_vertices", "connect_valid_graph", "connect_coding_graph", "approximate_capacity",
               "calculate_intersection_score", "create_random_shuffles", "complete_then_trim", "bit_to_number"}


@st.composite
def op_strategy(draw, k):
    f = draw(st.sampled_from([
        "encode", "encode", "decode", "set_vt", "repair_dna", "repair_dna", "path_matching", "accessor_to_latter_map",
        "latter_map_to_accessor", "remove_useless", "accessor_to_adjacency_matrix", "adjacency_matrix_to_accessor",
        "obtain_vertices", "obtain_leaf_vertices", "get_complete_accessor", "get_complete_accessor", "find_vertices",
        "filter_valid", "connect_valid_graph", "connect_coding_graph", "connect_coding_graph",
        "approximate_capacity", "calculate_intersection_score", "create_random_shuffles", "complete_then_trim",
        "prune_then_trim", "prune_then_trim", "construct_filter", "construct_filter",
        "calculus", "bit_to_number", "number_to_bit", "dna_to_number", "number_to_dna"]))
    op = {"f": f}
    if f in VERBOSE_OPS:
        op["verbose"] = draw(st.booleans())
    if f == "encode":
        op.update(fast=draw(st.booleans()), vt=draw(st.sampled_from([0, 0, 3])), table=draw(st.booleans()),
                  path=draw(st.booleans()))
    elif f == "decode":
        op.update(table=draw(st.booleans()), corrupted=draw(st.sampled_from([False, False, True])))
    elif f == "set_vt":
        op.update(n=draw(st.integers(1, 6)))
    elif f == "repair_dna":
        op.update(indel=draw(st.booleans()), check_len=draw(st.sampled_from([0, 1, 1, 2, 5])))
    elif f == "path_matching":
        op.update(indel=draw(st.booleans()), loc=draw(st.integers(0, 2 * k)))
    elif f == "construct_filter":
        op.update(run=draw(st.sampled_from([None, 1, 2])))
    elif f == "prune_then_trim":
        op.update(threshold=draw(st.sampled_from([1, 1, 2])))
    elif f in ("latter_map_to_accessor", "remove_useless"):
        op.update(threshold=draw(st.sampled_from([None, 1, 2] if f == "latter_map_to_accessor" else [1, 2, 3])))
    elif f == "obtain_leaf_vertices":
        op.update(depth=draw(st.integers(0, 3)), via_map=draw(st.booleans()),
                  vertex=draw(st.sampled_from([None, None, draw(st.integers(0, 4 ** k - 1))])))
    elif f == "filter_valid":
        op.update(only_last=draw(st.booleans()))
    elif f == "connect_coding_graph":
        op.update(t=draw(st.integers(1, 3)))
    elif f == "approximate_capacity":
        op.update(repeats=draw(st.sampled_from([1, 1, 2, 3])), np_seed=draw(st.integers(0, 2 ** 32 - 1)),
                  process=draw(st.booleans()))
    elif f == "calculate_intersection_score":
        op.update(ins=draw(st.booleans()), dele=draw(st.booleans()))
    elif f == "create_random_shuffles":
        op.update(seed=draw(st.integers(0, 2 ** 32 - 1)))
    elif f == "calculus":
        op.update(op=draw(st.sampled_from(["add", "sub", "mul", "div"])), base=str(draw(st.integers(1, 9))))
    elif f in ("bit_to_number", "dna_to_number"):
        op.update(is_string=draw(st.booleans()))
    elif f in ("number_to_bit", "number_to_dna"):
        op.update(width=draw(st.integers(0, 80)))
    return op


@st.composite
def histories(draw, tier):
    graph = draw(gens.coding_graphs(1, 4, weights={1: 2, 2: 6, 3: 4, 4: 1}))
    k = graph["k"]
    dead = [v for v, r in enumerate(graph["rows"]) if not r]
    if dead and draw(st.booleans()):
        # vertices outside the coding graph (no arc leads to them, so the walks from the start vertex never see
        # them) that keep arcs of their own, also arcs into vertices WITHOUT follow-up vertices: the shared graph is
        # then an untrimmed one, as connect_valid_graph or a hand-written latter map describes it
        rows = list(graph["rows"])
        for _ in range(draw(st.integers(1, 3))):
            rows[dead[draw(st.integers(0, len(dead) - 1))]] = draw(st.integers(1, 15))
        graph = dict(graph, rows=rows, untrimmed=True)
    bits = draw(gens.messages(40 if draw(st.integers(0, 5)) else 320, min_len=1))
    table = draw(gens.tables(k, allow_none=False))
    strand, _ = o.ref_encode([int(c) for c in bits], graph["rows"], k, graph["start"])
    if len(strand) < 2 * k + 2:
        strand = strand + draw(gens.walks(graph, (o.walk_states(graph["rows"], k, graph["start"], strand) or
                                                  [graph["start"]])[-1], 2 * k + 2, 2 * k + 8))
    corrupted = draw(gens.edits(strand, draw(st.integers(1, 3))))
    if len(corrupted) < k:
        corrupted = strand
    mask = draw(gens.masks(k, [0.5, 0.65, 0.8, 0.9]))
    desc = {"graph": graph, "bits": bits, "table": table, "mask": "".join(map(str, mask)),
            "mask_bool": draw(st.booleans()),
            "filter": draw(gens.local_filter_cfgs(k, decidable=True)) if draw(st.sampled_from([True] * 5 + [False]))
            else {"k": k, "run": None, "gc": None, "motifs": None},
            "map_order": draw(st.sampled_from([None, 1, 2, 3])),
            "layout": draw(st.sampled_from([None, None, None, "F", "strided", "int32", "readonly"])),
            "motifs": draw(st.lists(st.text(alphabet="ACGT", min_size=1, max_size=3), min_size=1, max_size=3)),
            "strand": strand, "corrupted": corrupted,
            "number": str(draw(st.integers(10, 10 ** 30)))}
    ops = draw(st.lists(op_strategy(k), min_size=4, max_size=14))
    return {"bundle": desc, "ops": ops, "fresh": draw(st.integers(0, 9 if tier == "quick" else 3)) == 0}


def snapshot(bundle):
    import numpy
    snap = {}
    for name, value in bundle.items():
        if isinstance(value, numpy.ndarray):
            snap[name] = (value.tobytes(), str(value.dtype), value.shape, value.strides, bool(value.flags.writeable))
        elif isinstance(value, dict):
            snap[name] = json.dumps(history.normalise(value)) + repr([type(v).__name__ for v in value.values()])
        elif name == "filter":
            snap[name] = repr(sorted((k, repr(v)) for k, v in vars(value).items()))
        else:
            snap[name] = repr(value)
    return snap


def scribble(raw, bundle):
    """Overwrite results the caller owns (never objects that alias a shared argument)."""
    import numpy
    shared = [v for v in bundle.values() if isinstance(v, numpy.ndarray)]
    stack = [raw]
    while stack:
        item = stack.pop()
        if isinstance(item, numpy.ndarray):
            if item.flags.writeable and not any(numpy.shares_memory(item, s) for s in shared):
                item[...] = 7 if item.dtype.kind in "iuf" else True
        elif isinstance(item, dict):
            if not any(item is v for v in bundle.values()):
                stack.extend(item.values())
                item.clear()
        elif isinstance(item, list):
            stack.extend(item)
            del item[:]
        elif isinstance(item, tuple):
            stack.extend(item)


def evaluate(case):
    desc, ops = case["bundle"], case["ops"]
    bundle = history.build_bundle(desc)
    base = snapshot(bundle)
    recorded = []
    names = [op["f"] for op in ops]
    labels = ["ops:%s" % ("4-7" if len(ops) < 8 else "8-14"), "k=%d" % desc["graph"]["k"]] + (
        ["untrimmed_graph"] if desc["graph"].get("untrimmed") else [])
    for index, op in enumerate(ops):
        result, raw, _ = history.execute(op, bundle)
        now = snapshot(bundle)
        if now != base:
            changed = [name for name in base if base[name] != now[name]]
            return bad("call %d %r modified its shared argument(s) %r" % (index, op, changed), labels)
        recorded.append(result)
        if op["f"] in VERBOSE_OPS:
            twin = dict(op, verbose=not op.get("verbose", False))
            twin_result, twin_raw, _ = history.execute(twin, bundle)
            if twin_result != result:
                return bad("call %d %r gives %s with verbose=%s but %s with verbose=%s"
                           % (index, op, short(result), op.get("verbose"), short(twin_result), twin["verbose"]),
                           labels)
            if snapshot(bundle) != base:
                return bad("call %d %r (verbose twin) modified a shared argument" % (index, twin), labels)
            scribble(twin_raw, bundle)
            labels.append("verbose_twin")
        scribble(raw, bundle)
        after = snapshot(bundle)
        if after != base:
            changed = [name for name in base if base[name] != after[name]]
            return bad("the result of call %d %r shares mutable state with the argument(s) %r: overwriting the "
                       "caller-owned result changed them" % (index, op, changed), labels)
        if isinstance(result, dict) and "raised" in result:
            labels.append("raised")
    fresh = history.build_bundle(desc)
    for index in reversed(range(len(ops))):
        again = history.execute(ops[index], fresh)[0]
        if again != recorded[index]:
            return bad("call %d %r returned %s inside the history %r but %s on fresh equal arguments (reverse order)"
                       % (index, ops[index], short(recorded[index]), names, short(again)), labels)
    if case["fresh"]:
        # another hash seed than this process (0): results must not depend on set/dict iteration order
        env = dict(os.environ, VERIF_REPO=REPO, PYTHONPATH=VERIF, PYTHONHASHSEED=str(1 + len(json.dumps(ops)) % 9973),
                   VERIF_NO_POOL="1")
        flags = ["-O"] if len(ops) % 2 == 0 else []  # half of the fresh interpreters run with assertions stripped
        done = subprocess.run([sys.executable] + flags + ["-m", "pbt.history"],
                              input=json.dumps({"bundle": desc, "ops": ops}),
                              capture_output=True, text=True, timeout=120, env=env, cwd=VERIF)
        if done.returncode != 0:
            raise AssertionError("fresh interpreter failed: " + done.stderr[-400:])
        remote = json.loads(done.stdout)
        for index, (mine, theirs) in enumerate(zip(json.loads(json.dumps(recorded)), remote)):
            if mine != theirs:
                return bad("call %d %r returned %s inside the history but %s in a fresh interpreter"
                           % (index, ops[index], short(mine), short(theirs)), labels)
        labels.append("fresh_interpreter")
    labels += ["f:" + name for name in sorted(set(names))]
    return Outcome(True, len(ops) >= 4 and len(set(names)) >= 3, labels)


RANDOMISED_OPS = {"approximate_capacity", "create_random_shuffles"}  # seed numpy's global generator: not for threads


@st.composite
def concurrent_histories(draw, tier):
    jobs = []
    for _ in range(draw(st.integers(2, 3))):
        job = draw(histories(tier))
        ops = [op for op in job["ops"] if op["f"] not in RANDOMISED_OPS][:8]
        jobs.append({"bundle": job["bundle"], "ops": ops or [{"f": "obtain_vertices"}]})
    return {"jobs": jobs, "rounds": draw(st.sampled_from([2, 3, 5]))}


def evaluate_concurrent(case):
    """Schedules: every job (own bundle of arguments, own list of calls) runs in its own thread at the same time, with
    the interpreter switching threads every microsecond; every result must equal the one the same call gives when
    the jobs run one after the other."""
    import contextlib
    import io
    import sys
    import threading
    previous = os.environ.get("VERIF_NO_POOL")
    os.environ["VERIF_NO_POOL"] = "1"  # every job needs argument objects of its own
    try:
        baseline_bundles = [history.build_bundle(job["bundle"]) for job in case["jobs"]]
        bundles = [history.build_bundle(job["bundle"]) for job in case["jobs"]]
    finally:
        if previous is None:
            del os.environ["VERIF_NO_POOL"]
        else:
            os.environ["VERIF_NO_POOL"] = previous
    baseline = [[history.execute(op, bundle)[0] for op in job["ops"]]
                for job, bundle in zip(case["jobs"], baseline_bundles)]
    wrong, barrier = [], threading.Barrier(len(case["jobs"]))

    def worker(index):
        try:
            barrier.wait(timeout=60)
        except threading.BrokenBarrierError:
            pass
        for round_index in range(case["rounds"]):
            for position, op in enumerate(case["jobs"][index]["ops"]):
                try:
                    result = history.normalise(history.call(op, bundles[index]))
                except Exception as exc:  # noqa - the exception type is part of the observable result
                    result = {"raised": type(exc).__name__}
                if result != baseline[index][position] and len(wrong) < 3:
                    wrong.append((index, round_index, op, result, baseline[index][position]))

    old_interval = sys.getswitchinterval()
    threads = [threading.Thread(target=worker, args=(i,), daemon=True) for i in range(len(case["jobs"]))]
    try:
        sys.setswitchinterval(1e-6)
        with contextlib.redirect_stdout(io.StringIO()):
            for thread in threads:
                thread.start()
            for thread in threads:
                thread.join()
    finally:
        sys.setswitchinterval(old_interval)
    names = sorted({op["f"] for job in case["jobs"] for op in job["ops"]})
    labels = ["threads=%d" % len(case["jobs"])] + ["f:" + name for name in names]
    if wrong:
        index, round_index, op, result, want = wrong[0]
        return bad("with %d threads working on their own arguments at the same time, call %r of thread %d (round %d) "
                   "returned %s, but %s when the jobs run one after the other"
                   % (len(case["jobs"]), op, index, round_index, short(result), short(want)), labels)
    return Outcome(True, len(names) >= 3, labels)


def short(value):
    text = json.dumps(value)
    return text if len(text) <= 160 else text[:160] + "..."


SUBCHECKS = [
    SubCheck("call_histories", evaluate, strategy=histories, examples=(400, 5000), shards=(16, 16),
             floors={"fresh_interpreter": 15, "untrimmed_graph": 90, "verbose_twin": 300, "f:connect_coding_graph": 80, "f:encode": 80,
                     "f:get_complete_accessor": 60, "f:complete_then_trim": 30, "f:repair_dna": 30}, rule=RULE,
             timeout=300.0),
    SubCheck("concurrent_histories", evaluate_concurrent, strategy=concurrent_histories, examples=(96, 960),
             shards=(16, 16), floors={"threads=3": 20, "f:encode": 20, "f:repair_dna": 15}, timeout=300.0,
             rule="Schedules: 2..3 jobs, each a bundle of arguments of its own and up to 8 calls drawn as in "
                  "call_histories (the two calls that seed numpy's global generator excepted), run in threads at the "
                  "same time for 2..5 rounds with a switch interval of one microsecond; every result must equal the "
                  "result of the same call when the jobs run one after the other. Non-trivial: three or more "
                  "different functions take part."),
]

TECHNIQUE = ("model-based property testing of call histories (Hypothesis-generated operation sequences on shared "
             "arguments): argument snapshots, order-reversal differential in-process and against a fresh "
             "interpreter, verbose twins")
LEVEL_TEXT = ("Generated histories, 400 / 5,000 sequences of 4..14 calls over 30 public functions sharing one "
              "bundle of arguments: after every call all shared arguments are compared byte for byte with their "
              "initial snapshot; every result is compared with the same call run in reverse order on freshly built "
              "arguments, in-process for all histories and in a fresh interpreter for a drawn share (1 in 10 / 1 in "
              "4); returned objects are overwritten after recording so hidden sharing or caching surfaces later; "
              "each call that accepts verbose is repeated with the flag flipped. It samples interleavings; it does "
              "not enumerate them."
              ' 96 / 960 concurrent schedules (2..3 jobs with their own arguments in threads) must reproduce the sequential results.')
LEVEL_NOTE = ("Trusted: the JSON normalisation of results; 'fresh process' is realised per history, not per call; "
              "remove_nasty_arc is only run on caller-owned fresh objects.")
