"""C06 - decoding accepts exactly the strands that are walks of the graph."""
import random

from hypothesis import strategies as st

from pbt import coding, gens, oracles as o
from pbt.core import Outcome, Raised, SubCheck, bad, discard

PROPERTY = "C06"
RULE = ("Hypothesis draws an arbitrary arc subset (order 1..3 quick / 1..5 thorough; without out-degree 3 for the "
        "fast mode), a start vertex, a string (walk, walk with 1..5 edits over ACGT or a wider alphabet, random ACGT, "
        "foreign characters, empty), an optional check (right, wrong, wrong length, foreign), a table or none, and a "
        "requested width. Oracle: independent walk predicate and VT formula; accepted <=> int array of exactly the "
        "requested length, otherwise ValueError and no other exception type. Fast mode: only strings whose walkable "
        "prefix carries no more bits than requested (others counted as out_of_domain). Non-trivial: rejected at a "
        "position > 0, or at an out-degree-1 / dead vertex, or by the check only, or an accepted walk through >= 2 "
        "distinct out-degrees.")
ASSUMPTIONS = ["graphs are arc subsets of the de Bruijn graph; fast mode only on graphs without out-degree 3 and "
               "only for strings whose walkable prefix carries no more bits than requested",
               "an empty supplied check matches no strand (the check function is defined for n >= 1)"]


@st.composite
def cases(draw, tier, fast):
    bounds = coding.tier_bounds(tier)
    graph = draw(gens.arc_subsets(1, bounds["kmax"], {1: 2, 2: 4, 3: 4, 4: 2, 5: 1}))
    rng = random.Random(draw(st.integers(0, 2 ** 32 - 1)))
    if draw(st.sampled_from([False] * 24 + [True])):
        # the observed lengths used in practice: 1,024..65,536 vertices, indices beyond 2^15, some dead vertices
        k = draw(st.sampled_from([5, 6, 7, 8]))
        palette = [15, 15, 5, 10, 3, 12, 6, 9, 1, 2, 4, 8, 0] if fast else [15, 15, 7, 11, 13, 14, 5, 10, 3, 12, 1, 2, 4, 8, 0]
        graph = {"k": k, "rows": [rng.choice(palette) for _ in range(4 ** k)], "large_k": True}
    elif fast:
        graph = dict(graph, rows=gens._fix_fast(graph["rows"], rng))
    n = 4 ** graph["k"]
    with_arcs = [v for v, r in enumerate(graph["rows"]) if r]
    start = with_arcs[draw(st.integers(0, len(with_arcs) - 1))] if with_arcs and draw(st.integers(0, 9)) else \
        draw(st.integers(0, n - 1))
    graph = dict(graph, start=start)
    walk = draw(gens.walks(graph, start, 0, 30 if tier == "quick" else 120))
    kind = draw(st.sampled_from(["walk", "walk", "edit1", "edits", "foreign_edit", "random", "foreign",
                                 "extended", "site_edit", "site_edit", "site_edit", "invisible_end", "invisible_end"]))
    if kind == "walk":
        text = walk
    elif kind == "edit1":
        text = draw(gens.edits(walk, 1))
    elif kind == "edits":
        text = draw(gens.edits(walk, draw(st.integers(2, 5))))
    elif kind == "foreign_edit":
        text = draw(gens.edits(walk, 1, alphabet="ACGTNacgt-"))
    elif kind == "invisible_end":
        # a walk with one "invisible" foreign character (or pair) glued to its end or its front: line feeds and other
        # separators that regular expressions, strip() or splitlines() treat as the end of the text
        trick = draw(st.sampled_from(["\n", "\n", "\n"] + gens.TAIL_TRICKS))
        text = walk + trick if draw(st.integers(0, 3)) else trick + walk
    elif kind == "extended":
        text = walk + draw(st.text(alphabet="ACGT", min_size=1, max_size=3))
    elif kind == "site_edit":
        # choose the rejection site class first (out-degree of the vertex at which the bad symbol is read), then the
        # symbol class (an A/C/G/T that is not an arc there, or a foreign character)
        table = o.succ_table(graph["k"])
        path, v = [start], start
        for c in walk:
            v = table[v][o.NUC.index(c)]
            path.append(v)
        groups = {}
        for pos, vertex in enumerate(path):
            groups.setdefault(min(o.out_degree(graph["rows"], vertex), 2), []).append(pos)
        group = groups[draw(st.sampled_from(sorted(groups)))]
        pos = group[draw(st.integers(0, len(group) - 1))]
        dead = [c for j, c in enumerate(o.NUC) if not (graph["rows"][path[pos]] >> j) & 1]
        pool = list("Nacgt-U*") + dead + dead
        symbol = pool[draw(st.integers(0, len(pool) - 1))]
        tail = walk[pos + 1:] if draw(st.booleans()) else walk[pos:]
        text = walk[:pos] + symbol + tail
    elif kind == "random":
        text = draw(st.text(alphabet="ACGT", min_size=0, max_size=20))
    else:
        text = draw(gens.any_strings(16))
    check_kind = draw(st.sampled_from(["none", "none", "right", "right", "wrong", "wrong_length", "foreign", "empty"]))
    if kind == "invisible_end" and draw(st.booleans()):
        check_kind = "none"  # with a check the alphabet is usually judged by the check function first
    check_len = draw(st.one_of(st.integers(1, 6), st.integers(1, 6), st.integers(1, 6),
                               st.sampled_from([16, 31, 32, 33, 34, 40, 64, 65, 100])))
    extra = draw(st.sampled_from([0, 0, 0, 1, 2, 5, -1, -2, -7]))  # negative: fewer bits than the walk's value needs
    return {"graph": graph, "text": text, "table": draw(gens.tables(graph["k"])), "fast": fast,
            "check_kind": check_kind, "check_len": check_len, "extra": extra,
            "salt": draw(st.integers(0, 2 ** 16)),
            "np_start": draw(st.sampled_from([False, False, "int64", "int32", "uint8", "int8"])),
            "np_lengths": draw(st.sampled_from([False, False, True])),
            "np_str": draw(st.sampled_from([False, False, False, True]))}


def build_check(case):
    text, kind, n = case["text"], case["check_kind"], case["check_len"]
    if kind == "none":
        return None
    if kind == "empty":
        return ""  # matches no strand: the check function is defined for n >= 1 only
    acgt = all(c in o.NUC and len(c) == 1 for c in text)
    right = o.ref_vt(text, n) if acgt else "A" * n
    if kind == "right":
        return right
    rng = random.Random(case["salt"])
    if kind == "wrong":
        pos = rng.randrange(n)
        return right[:pos] + rng.choice([c for c in "ACGT" if c != right[pos]]) + right[pos + 1:]
    if kind == "wrong_length":
        return right + "A" if rng.random() < 0.5 or n == 1 else right[:-1]
    return right[:-1] + "N"


def evaluate(case):
    graph = case["graph"]
    rows, k, start = graph["rows"], graph["k"], graph["start"]
    text, fast = case["text"], case["fast"]
    table_rows = gens.table_rows(case["table"])
    states = o.walk_states(rows, k, start, text)
    prefix = text[:len(states)]
    walk = len(states) == len(text)
    digits = o.ref_digits(prefix, rows, k, start, table_rows)
    if fast:
        carried = o.fast_bits(digits)
        if carried is None:
            return discard("out_degree_3_in_fast_mode")
        width = len(carried) + case["extra"]
        if not walk:
            # the rejecting vertex must not be an out-degree-3 vertex either (graph domain)
            v = states[-1] if states else start
            if o.out_degree(rows, v) == 3:
                return discard("out_degree_3_in_fast_mode")
    else:
        width = max(0, o.digits_value(digits).bit_length() + case["extra"])
    if fast and case["extra"] < 0:
        width = len(carried)  # fast mode: strings carrying more bits than requested are outside the statement
    check = build_check(case)
    acgt = all(c in o.NUC and len(c) == 1 for c in text)
    check_ok = check is None or (len(check) > 0 and acgt and o.ref_vt(text, len(check)) == check)
    expected_accept = walk and check_ok
    labels = ["fast" if fast else "normal", "check:" + case["check_kind"], "k=%d" % k] + (
        ["large_k"] if graph.get("large_k") else [])
    if not fast and case["extra"] < 0 and width < o.digits_value(digits).bit_length():
        labels.append("width_smaller_than_value")
    if walk:
        site = "accept" if check_ok else "reject:check_only"
    else:
        v = states[-1] if states else start
        degree = o.out_degree(rows, v)
        bad_char = text[len(states)]
        site = "reject:dead_vertex" if degree == 0 else ("reject:deg1" if degree == 1 else "reject:branching")
        if bad_char not in o.NUC:
            labels.append("reject:foreign_char")
            labels.append("foreign_at_" + site[7:])
        if len(states) > 0:
            labels.append("reject_pos>0")
    labels.append(site)
    if not walk and len(states) >= 1 and len(text) - len(states) <= 2 and all(c not in o.NUC for c in text[len(states):]):
        labels.append("foreign_only_at_end")
    if check is not None and len(check) >= 33:
        labels.append("check_len>=33")
    got = coding.run_decode(dict(case, bits="0" * width, vt=0), text, check=check)
    what = "decode(%r, width=%d, start=%d, check=%r, fast=%s)" % (text[:60], width, start, check, fast)
    if isinstance(got, str):
        return bad("%s did not terminate" % what, labels)
    if expected_accept:
        if isinstance(got, Raised):
            return bad("%s raised %r although the string is a walk%s" % (what, got,
                       "" if check is None else " and the check matches"), labels)
        if not coding.is_array_of_bits(got, width):
            return bad("%s returned %r, not a 0/1 int array of exactly %d entries" % (what, got, width), labels)
    else:
        if not isinstance(got, Raised):
            return bad("%s accepted a string that %s: returned %r" % (what, "is not a walk (stops after %d symbols)"
                       % len(states) if not walk else "does not match the supplied check", got), labels)
        if got.type is not ValueError:
            return bad("%s raised %s instead of ValueError: %s" % (what, got.name, got.message), labels)
    degrees = {o.out_degree(rows, v) for v in ([start] + states[:-1])} if states else set()
    nontrivial = (not walk and len(states) > 0) or site in ("reject:deg1", "reject:dead_vertex", "reject:check_only") \
        or (expected_accept and len(degrees) >= 2)
    return Outcome(True, nontrivial, labels)


def s_normal(tier):
    return cases(tier, False)


def s_fast(tier):
    return cases(tier, True)


FLOORS = {"foreign_at_deg1": 60, "foreign_at_branching": 60, "accept": 200, "reject:branching": 100, "reject:deg1": 60, "reject:dead_vertex": 40,
          "reject:check_only": 60, "reject:foreign_char": 60, "reject_pos>0": 150, "check:empty": 150,
          "width_smaller_than_value": 150, "foreign_only_at_end": 100, "check_len>=33": 250, "large_k": 120}

SUBCHECKS = [
    SubCheck("normal", evaluate, strategy=s_normal, examples=(5000, 50000), shards=(16, 16), floors=FLOORS, rule=RULE),
    SubCheck("fast", evaluate, strategy=s_fast, examples=(3000, 30000), shards=(16, 16),
             floors={"accept": 150, "reject:branching": 60, "reject:deg1": 40, "reject:dead_vertex": 25,
                     "reject:check_only": 40}, rule=RULE),
    SubCheck("fuzz_normal", evaluate, fuzz=("C06", (4000, 250000)), shards=(2, 8),
             rule="atheris/libFuzzer campaign: bytes are decoded into (graph from a pool of 64 arc subsets, start "
                  "vertex, string, options) and judged by the same oracle as the Hypothesis sub-check; coverage "
                  "feedback from dsw only; even shards start from an empty corpus, odd shards from 48 random inputs",
             timeout=3600.0),
]

TECHNIQUE = ("property-based testing (Hypothesis) and coverage-guided fuzzing (atheris): acceptance/rejection of generated strings against an independent "
             "walk predicate and VT formula, with per-rejection-site class floors")
LEVEL_TEXT = ("Generated search, 8,000 / 80,000 cases: both directions of the equivalence (every walk with a "
              "matching or absent check is decoded to exactly the requested width; every other string - edited "
              "walks, random and foreign-character strings, wrong / wrong-length / foreign checks - raises "
              "ValueError and nothing else), on arbitrary arc subsets so that branching, out-degree-1 and dead "
              "vertices are all reached as rejection sites (class floors enforce it), both modes, with and "
              "without tables.")
LEVEL_NOTE = ("Trusted: walk predicate, digit/bit accounting and VT formula in pbt/oracles.py. Fast-mode strings "
              "whose walkable prefix carries more bits than requested are outside the property and are not judged.")
