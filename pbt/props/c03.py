"""C03 - the coding graph is the largest closed sub-graph, or a ValueError."""
from hypothesis import strategies as st

from pbt import gens, oracles as o
from pbt.core import Outcome, Raised, SubCheck, bad, import_dsw, lib_call

PROPERTY = "C03"
RULE = ("All 65,536 order-2 vertex masks x thresholds 1..4 are enumerated in both tiers (one case = one mask with "
        "its four thresholds, dtype bool/int alternating); masks of order 1, 3, 4 (5 in thorough) are drawn by "
        "Hypothesis, and graphs of a few dozen vertices at observed lengths 5..10 (11) - the lengths used in practice - "
        "are built from the windows of short circular strings; verbose output is switched on for a share of all calls. Oracle: greatest fixed point on Python sets plus, for t = 1, iterated 'can reach a vertex with "
        ">= 2 retained successors' pruning (pbt/oracles.py), itself validated on every run against a literal "
        "enumeration of all subsets for all order-1 masks and for drawn small order-2 masks. Non-trivial: the fixed "
        "point needs >= 2 trimming rounds, or the t = 1 reachability pruning removes something, or the error path.")
ASSUMPTIONS = ["masks are bool or 0/1 integer numpy arrays of length 4^k; thresholds 1..4",
               "the closure oracle is the mathematical definition in the statement (validated against brute force)"]


def mask_array(bits, as_bool, dtype=None):
    import numpy
    if dtype in ("strided", "readonly"):
        return gens.pooled(gens.flat_variant(numpy.array(bits, dtype=bool if as_bool else int), dtype), "mask")
    return gens.pooled(numpy.array(bits, dtype=dtype or (bool if as_bool else int)), "mask")


def described_set(description, n):
    """Vertex set denoted by the returned description (bool / 0-1 mask of length 4^k, or an index array)."""
    import numpy
    arr = numpy.asarray(description)
    if arr.ndim != 1:
        return None
    if arr.dtype == bool or (len(arr) == n and all(int(x) in (0, 1) for x in arr)):
        if len(arr) != n:
            return None
        return {i for i, x in enumerate(arr) if x}
    values = [int(x) for x in arr]
    if len(set(values)) != len(values) or any(x < 0 or x >= n for x in values):
        return None
    return set(values)


def check_generation(k, bits, t, as_bool, with_latter_map=True, verbose=False, dtype=None):
    """Returns (error detail or None, labels)."""
    dsw = import_dsw()
    n = 4 ** k
    mask_set = {i for i, b in enumerate(bits) if b}
    expected, rounds, pruned = o.largest_closed_subgraph(mask_set, k, t)
    labels = ["t=%d" % t, "bool" if as_bool else "int"]
    if rounds >= 2:
        labels.append("multi_round_trim")
    if pruned:
        labels.append("t1_reach_pruning")
    if not expected:
        labels.append("error_path")
    mask = mask_array(bits, as_bool, dtype)
    before = (mask.tobytes(), mask.dtype, mask.shape)
    import numpy
    threshold = numpy.int64(t) if (dtype == "int32" or (k + t + len(bits)) % 5 == 0) else t  # e.g. from numpy.arange
    result = lib_call(dsw.connect_coding_graph, observed_length=k, vertices=mask, threshold=threshold, verbose=verbose)
    if (mask.tobytes(), mask.dtype, mask.shape) != before:
        return "connect_coding_graph modified the caller's mask (k=%d t=%d)" % (k, t), labels
    if isinstance(result, Raised):
        if result.type is not ValueError:
            return "raised %r (k=%d t=%d mask=%s)" % (result, k, t, short(bits)), labels
        if expected:
            return ("raised ValueError although the largest closed sub-graph has %d vertices %s (k=%d t=%d mask=%s)"
                    % (len(expected), sorted(expected)[:12], k, t, short(bits))), labels
    else:
        if not expected:
            return "returned a graph although the largest closed sub-graph is empty (k=%d t=%d mask=%s)" \
                   % (k, t, short(bits)), labels
        try:
            description, accessor = result
            got_rows = gens.rows_of_accessor(accessor, k)
        except (ValueError, TypeError) as exc:
            return "malformed result: %s (k=%d t=%d mask=%s)" % (exc, k, t, short(bits)), labels
        want_rows = o.rows_from_mask(expected, k)
        if got_rows != want_rows:
            v = next(i for i in range(n) if got_rows[i] != want_rows[i])
            return ("accessor differs from the largest closed sub-graph at vertex %d: arcs %s, expected %s "
                    "(k=%d t=%d mask=%s)" % (v, o.live(got_rows, v), o.live(want_rows, v), k, t, short(bits))), labels
        with_arcs = {v for v in range(n) if got_rows[v]}
        denoted = described_set(description, n)
        if denoted != with_arcs:
            return ("returned vertex description denotes %s, vertices with arcs are %s (k=%d t=%d mask=%s)"
                    % (None if denoted is None else sorted(denoted)[:12], sorted(with_arcs)[:12], k, t,
                       short(bits))), labels
    if with_latter_map and t >= 2 and mask_set and k <= 4:  # remove_useless is quadratic in the number of vertices
        valid = lib_call(dsw.connect_valid_graph, observed_length=k, vertices=mask_array(bits, as_bool))
        if isinstance(valid, Raised):
            return "connect_valid_graph raised %r on a non-empty mask" % valid, labels
        def trim():
            latter_map = dsw.accessor_to_latter_map(valid)
            if (sum(bits) + t) % 2:  # the same graph with its keys inserted in another order (a hand-built map)
                keys = sorted(latter_map, key=lambda v: (v * 7 + 3) % (4 ** k))
                latter_map = {key: latter_map[key] for key in keys}
            return dsw.latter_map_to_accessor(latter_map, k, threshold=t)
        trimmed = lib_call(trim)
        if isinstance(trimmed, Raised):
            return "latter-map trimming raised %r (k=%d t=%d mask=%s)" % (trimmed, k, t, short(bits)), labels
        try:
            trimmed_rows = gens.rows_of_accessor(trimmed, k)
        except ValueError as exc:
            return "latter-map trimming gave a malformed accessor: %s" % exc, labels
        if trimmed_rows != o.rows_from_mask(expected, k):
            return ("trimming the latter map to threshold %d gives a different graph than generation "
                    "(k=%d mask=%s)" % (t, k, short(bits))), labels
    return None, labels


def short(bits):
    text = "".join(str(int(b)) for b in bits)
    return text if len(text) <= 64 else text[:64] + "..(%d)" % len(text)


# ------------------------------------------------------------------------------------------- exhaustive order 2

def enum_size(tier):
    return 65536


def enum_case(i, tier):
    return {"k": 2, "mask": i}


def evaluate_order2(case):
    bits = [(case["mask"] >> i) & 1 for i in range(16)]
    labels, nontrivial = [], False
    for t in (1, 2, 3, 4):
        detail, lab = check_generation(2, bits, t, as_bool=(case["mask"] + t) % 2 == 0,
                                       verbose=(case["mask"] * 4 + t) % 97 == 0)
        if detail:
            return bad(detail, lab)
        if len(lab) > 2:
            nontrivial = True
        labels += lab[2:] + ["t=%d:%s" % (t, "error" if "error_path" in lab else "graph")]
    return Outcome(True, nontrivial, sorted(set(labels)))


# ------------------------------------------------------------------------------------------- drawn masks

@st.composite
def drawn_cases(draw, tier):
    k = draw(st.sampled_from([1, 3, 3, 3, 4, 4, 3, 4, 3, 4, 4, 3, 1, 3, 4, 6, 7] if tier == "quick"
                             else [1, 3, 3, 4, 4, 5, 5, 3, 4, 5, 6, 7]))
    bits = draw(gens.masks(k))
    t = draw(st.integers(1, 4))
    drop = draw(st.lists(st.integers(0, 4 ** k - 1), min_size=1, max_size=6))
    if draw(st.sampled_from([False] * 11 + [True])):
        bits = [1] * len(bits)  # the complete mask
    return {"k": k, "bits": "".join(map(str, bits)), "t": t, "bool": draw(st.booleans()), "drop": drop,
            "verbose": k <= 5 and draw(st.integers(0, 4)) == 0,
            "dtype": draw(st.sampled_from([None, None, None, "uint8", "int8", "int32", "strided", "readonly"]))}


def evaluate_drawn(case):
    dsw = import_dsw()
    k, t = case["k"], case["t"]
    bits = [int(c) for c in case["bits"]]
    detail, labels = check_generation(k, bits, t, case["bool"], verbose=bool(case.get("verbose")),
                                      dtype=case.get("dtype"))
    if case.get("dtype"):
        labels.append("mask_dtype:" + case["dtype"])
    labels.append("k=%d" % k)
    if case.get("verbose"):
        labels.append("verbose")
    if detail:
        return bad(detail, labels)
    # metamorphic: a smaller mask never yields a larger graph
    smaller = list(bits)
    for v in case["drop"]:
        smaller[v] = 0
    if smaller != bits:
        big = lib_call(dsw.connect_coding_graph, observed_length=k, vertices=mask_array(bits, case["bool"]),
                       threshold=t)
        small = lib_call(dsw.connect_coding_graph, observed_length=k, vertices=mask_array(smaller, case["bool"]),
                         threshold=t)
        if not isinstance(small, Raised):
            if isinstance(big, Raised):
                return bad("sub-mask yields a graph but the mask raises %r (k=%d t=%d)" % (big, k, t), labels)
            small_arcs = o.arcs(gens.rows_of_accessor(small[1], k), k)
            big_arcs = o.arcs(gens.rows_of_accessor(big[1], k), k)
            if not small_arcs <= big_arcs:
                return bad("a smaller mask yields arcs %s that the larger mask does not have (k=%d t=%d mask=%s)"
                           % (sorted(small_arcs - big_arcs)[:6], k, t, short(bits)), labels)
            labels.append("submask_graph")
        elif small.type is not ValueError:
            return bad("sub-mask raised %r" % small, labels)
        else:
            labels.append("submask_error")
    return Outcome(True, len(labels) > 3 and any(x in labels for x in
                                                 ("multi_round_trim", "t1_reach_pruning", "error_path")), labels)


# ------------------------------------------------------------------------------------------- large k, tiny graphs

@st.composite
def tiny_cases(draw, tier):
    k = draw(st.sampled_from([10, 9, 8, 7, 6, 5, 9, 10] if tier == "quick" else [10, 9, 8, 7, 6, 11, 10, 9]))
    vertices, levels = draw(gens.tiny_masks(k)), 0
    shape = draw(st.sampled_from(["circles", "circles", "cascade", "cascade+circles"]))
    if shape != "circles":
        # a chain of diamonds that dies level by level: one round of the threshold-1 reach-pruning per level
        chain, levels = draw(gens.cascade_vertices(k))
        vertices = sorted(set(chain) | set(vertices)) if shape == "cascade+circles" else chain
    return {"k": k, "vertices": vertices, "t": draw(st.sampled_from([1, 1, 1, 2])), "levels": levels,
            "bool": draw(st.booleans()), "verbose": k <= 8 and draw(st.sampled_from([True, True, False]))}


def evaluate_tiny(case):
    """Same oracle, at the observed lengths used in practice (up to 10/11) with graphs of a few dozen vertices."""
    import numpy
    dsw = import_dsw()
    k, t = case["k"], case["t"]
    n = 4 ** k
    mask_set = set(case["vertices"])
    expected, rounds, pruned = o.largest_closed_subgraph(mask_set, k, t)
    labels = ["k=%d" % k, "t=%d" % t, "graph" if expected else "error_path"]
    if case["verbose"]:
        labels.append("verbose")
    if case.get("levels", 0) >= 5 and t == 1 and pruned:
        labels.append("t1_cascade>=5_levels")
    if expected and len(expected) * 20000 < n:
        labels.append("graph_below_0.005%")
    mask = numpy.zeros(n, dtype=bool if case["bool"] else int)
    mask[sorted(mask_set)] = 1
    mask = gens.pooled(mask, "mask")
    result = lib_call(dsw.connect_coding_graph, _twice=k <= 8, observed_length=k, vertices=mask, threshold=t,
                      verbose=case["verbose"])
    where = "k=%d t=%d vertices=%s verbose=%s" % (k, t, [o.kmer(v, k) for v in sorted(mask_set)][:8], case["verbose"])
    if int(mask.sum()) != len(mask_set):
        return bad("connect_coding_graph modified the caller's mask (%s)" % where, labels)
    if isinstance(result, Raised):
        if result.type is not ValueError:
            return bad("raised %r (%s)" % (result, where), labels)
        if expected:
            return bad("raised ValueError although the largest closed sub-graph has %d vertices (%s)"
                       % (len(expected), where), labels)
        return Outcome(True, True, labels)
    if not expected:
        return bad("returned a graph although the largest closed sub-graph is empty (%s)" % where, labels)
    try:
        got_rows = gens.rows_of_accessor(result[1], k)
    except (ValueError, TypeError) as exc:
        return bad("malformed result: %s (%s)" % (exc, where), labels)
    live = {v: r for v, r in enumerate(got_rows) if r}
    want = {v: sum(1 << j for j, w in enumerate(o.succ(v, k)) if w in expected) for v in expected}
    if live != want:
        return bad("accessor differs from the largest closed sub-graph: rows %r, expected %r (%s)"
                   % (sorted(live.items())[:6], sorted(want.items())[:6], where), labels)
    if described_set(result[0], n) != set(want):
        return bad("returned vertex description does not denote the vertices with arcs (%s)" % where, labels)
    return Outcome(True, True, labels)


# ------------------------------------------------------------------------------------------- oracle self-check

@st.composite
def selfcheck_cases(draw, tier):
    if draw(st.integers(0, 3)) == 0:
        return {"k": 1, "mask": draw(st.integers(0, 15)), "t": draw(st.integers(1, 4))}
    members = draw(st.lists(st.integers(0, 15), min_size=0, max_size=11, unique=True))
    return {"k": 2, "mask": sum(1 << v for v in members), "t": draw(st.integers(1, 4))}


def evaluate_selfcheck(case):
    k, t = case["k"], case["t"]
    mask_set = {i for i in range(4 ** k) if (case["mask"] >> i) & 1}
    fixed, rounds, pruned = o.largest_closed_subgraph(mask_set, k, t)
    literal = o.definitional_closed_subgraph(mask_set, k, t)
    if fixed != literal:
        raise AssertionError("oracle self-check failed: fixed point %s != union of all closed subsets %s for %r"
                             % (sorted(fixed), sorted(literal), case))
    return Outcome(True, bool(rounds or pruned or not fixed), ["selfcheck", "k=%d" % k, "t=%d" % t])


SUBCHECKS = [
    SubCheck("order2_all_masks", evaluate_order2, enum=(enum_size, enum_case), shards=(16, 16),
             exhaustive_space="all 65,536 order-2 vertex masks x thresholds 1..4 (dtype alternating), incl. the "
                              "latter-map trimming differential for t >= 2", rule=RULE),
    SubCheck("drawn_masks", evaluate_drawn, strategy=drawn_cases, examples=(1500, 20000), shards=(8, 16),
             floors={"multi_round_trim": 50, "t1_reach_pruning": 5, "error_path": 50, "submask_graph": 100},
             rule=RULE),
    SubCheck("large_k_tiny_graphs", evaluate_tiny, strategy=tiny_cases, examples=(96, 800), shards=(16, 16),
             floors={"graph": 10, "verbose": 5, "k=10": 3, "k=9": 3, "t1_cascade>=5_levels": 5}, rule=RULE, timeout=300.0),
    SubCheck("oracle_selfcheck", evaluate_selfcheck, strategy=selfcheck_cases, examples=(400, 2000), shards=(4, 8),
             rule="fixed-point oracle == union of all subsets satisfying the stated closure (brute force)"),
]

TECHNIQUE = ("complete enumeration of all order-2 masks plus property-based testing (Hypothesis) of larger orders "
             "against an independent greatest-fixed-point oracle; metamorphic sub-mask relation; differential with "
             "latter-map trimming")
LEVEL_TEXT = ("Exhaustive for observed length 2 (all 65,536 masks x 4 thresholds, every run) and generated search "
              "for orders 1, 3, 4 (5 in thorough): the returned accessor must equal the independently computed "
              "largest closed sub-graph entry by entry, the vertex description must denote exactly the rows with "
              "arcs, ValueError exactly when that sub-graph is empty, the mask bit-for-bit unchanged; monotonicity "
              "under sub-masks and agreement with latter-map trimming for t >= 2 are checked on the same cases; at orders 5..10 (11) small "
              "graphs from circular strings and chains of up to 12 diamonds that the threshold-1 pruning must peel "
              "off one round per level. The "
              "oracle itself is validated against a brute-force enumeration of subsets on every run.")
LEVEL_NOTE = ("Trusted: the closure oracle in pbt/oracles.py (validated against literal subset enumeration for k = 1 "
              "and small k = 2 masks). Orders >= 3 are sampled, not enumerated.")
