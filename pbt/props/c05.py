"""C05 - the strand is the documented mixed-radix walk, independent of implementation."""
from hypothesis import strategies as st

from pbt import coding, gens, oracles as o
from pbt.core import Outcome, Raised, SubCheck, bad, discard

PROPERTY = "C05"
RULE = ("Differential oracle: an independent integer-arithmetic reference coder (pbt/oracles.py: little-endian "
        "mixed radix, d-th live arc in A<C<G<T order or by table rank, fast mode 2/1/0 bits MSB first). Encode "
        "direction: strand == reference strand on well-formed coding graphs. Decode direction: arbitrary drawn walks "
        "of arbitrary arc subsets, decoded at widths minimal..minimal+8, must give the value big-endian. "
        "Non-trivial: >= 3 informative steps with >= 2 distinct radices, or a non-identity table row used at an "
        "out-degree 2/3 vertex; distinct by full case.")
ASSUMPTIONS = ["same input domain as C01; decode direction: any walk of any arc subset whose value fits the width",
               "fast-mode decode direction only for walks carrying exactly the requested number of bits"]


def informative(trace):
    radices = [r for (_, r, d) in trace if d is not None]
    return len(radices), len(set(radices))


def evaluate_encode(case):
    if not coding.in_c01_domain(case):
        return discard("graph_outside_domain")
    graph = case["graph"]
    try:
        expected, trace = o.ref_encode([int(c) for c in case["bits"]], graph["rows"], graph["k"], graph["start"],
                                       gens.table_rows(case["table"]), case["fast"])
    except o.RefError as exc:
        return discard("reference:" + str(exc).split(" at ")[0])
    got, lookups = coding.run_encode(case)
    labels, degrees, table_at_23 = coding.walk_classes(case, expected)
    if got == "BUDGET":
        return bad("encode did not terminate within %d look-ups; reference strand has %d nt" % (lookups, len(expected)),
                   labels)
    if isinstance(got, Raised):
        return bad("encode raised %r; reference strand %r" % (got, expected[:80]), labels)
    if case["vt"] > 0 and isinstance(got, tuple) and len(got) == 2:
        if got[1] != o.ref_vt(expected, case["vt"]):
            return bad("check %r returned by encode is not the check %r of the reference strand"
                       % (got[1], o.ref_vt(expected, case["vt"])), labels)
        got = got[0]
    if got != expected:
        return bad("strand differs from the documented scheme: bits=%s got=%r reference=%r"
                   % (case["bits"][:64], str(got)[:80], expected[:80]), labels)
    steps, radices = informative(trace)
    nontrivial = (steps >= 3 and radices >= 2) or table_at_23
    if steps >= 3 and radices >= 2:
        labels.append("multi_radix")
    return Outcome(True, nontrivial, labels)


@st.composite
def walk_cases(draw, tier):
    bounds = coding.tier_bounds(tier)
    fast = draw(st.sampled_from([False, False, True]))
    graph = draw(gens.arc_subsets(1, bounds["kmax"], {1: 2, 2: 4, 3: 4, 4: 2, 5: 1}))
    starts = [v for v, r in enumerate(graph["rows"]) if r] or [0]
    start = starts[draw(st.integers(0, len(starts) - 1))]
    graph = dict(graph, start=start)
    walk = draw(gens.walks(graph, start, 0, 24 if tier == "quick" else 120))
    table = draw(gens.tables(graph["k"]))
    extra = draw(st.integers(0, 8))
    return {"graph": graph, "walk": walk, "table": table, "fast": fast, "extra": extra, "vt": 0}


def evaluate_decode(case):
    graph = case["graph"]
    rows, k = graph["rows"], graph["k"]
    walk = case["walk"]
    digits = o.ref_digits(walk, rows, k, graph["start"], gens.table_rows(case["table"]))
    if digits is None:
        return discard("not_a_walk")
    labels, degrees, table_at_23 = coding.walk_classes(dict(case, bits=""), walk)
    radices = {r for r, _ in digits}
    nontrivial = (len(digits) >= 3 and len(radices) >= 2) or table_at_23
    if case["fast"]:
        carried = o.fast_bits(digits)
        if carried is None:
            return discard("radix3_in_fast_mode")
        width, expected = len(carried), carried
    else:
        value = o.digits_value(digits)
        width = value.bit_length() + case["extra"]
        expected = o.int_to_bits(value, width)
        labels.append("width+%d" % min(case["extra"], 3))
    got = coding.run_decode(dict(case, bits="0" * width), walk)
    if isinstance(got, (Raised, str)):
        return bad("decode of a walk failed with %r; walk=%r width=%d" % (got, walk[:80], width), labels)
    if not coding.is_array_of_bits(got, width) or [int(x) for x in got] != expected:
        return bad("decode(walk=%r, width=%d) = %r, documented value is %r"
                   % (walk[:80], width, "".join(str(int(x)) for x in got)[:80],
                      "".join(map(str, expected))[:80]), labels)
    return Outcome(True, nontrivial, labels)


def s_encode(tier):
    return coding.coding_cases(tier)


def huge_case(i, tier):
    import random as _random
    rng = _random.Random(4242 + i)
    width = 14300 + 13 * i
    bits = format(rng.getrandbits(width) | (1 << (width - 1)), "b")
    rows = [15] * 16 if i % 2 == 0 else [15, 6, 9, 15, 3, 15, 12, 7, 15, 10, 5, 15, 14, 15, 11, 13]
    return {"graph": {"k": 2, "rows": rows, "start": 0}, "bits": bits, "table": None if i % 2 == 0 else [7] * 16,
            "fast": False, "vt": 0}


def evaluate_huge(case):
    """Encode direction against the reference, then the library's own decode of the reference strand."""
    first = evaluate_encode(case)
    if not first.ok or first.discard:
        return first
    graph = case["graph"]
    expected, _ = o.ref_encode([int(c) for c in case["bits"]], graph["rows"], graph["k"], graph["start"],
                               gens.table_rows(case["table"]), case["fast"])
    got = coding.run_decode(case, expected)
    if isinstance(got, (Raised, str)) or "".join(str(int(x)) for x in got) != case["bits"]:
        return bad("decode of the reference strand of a %d-bit message failed: %r" % (len(case["bits"]),
                                                                                      str(got)[:120]))
    return Outcome(True, True, list(first.classes) + (["message_value>10^4300"] if len(case["bits"]) > 14000 else
                                                    ["long_message"]))


SUBCHECKS = [
    SubCheck("encode_vs_reference", evaluate_encode, strategy=s_encode, examples=(5000, 40000), shards=(12, 16),
             floors={"deg3_met": 100, "deg1_met": 100, "table_at_deg2or3": 100, "multi_radix": 100, "fast": 500, "large_k": 100},
             rule=RULE),
    SubCheck("decode_walks", evaluate_decode, strategy=walk_cases, examples=(3000, 30000), shards=(8, 16),
             floors={"deg3_met": 100, "table_at_deg2or3": 100, "fast": 200}, rule=RULE),
    SubCheck("huge_message", evaluate_huge, enum=(lambda tier: 0 if tier == "quick" else 4, huge_case),
             shards=(1, 4), exhaustive_space="four fixed 14,300-bit messages (value beyond 10^4300, i.e. beyond "
                                             "CPython's int/str conversion limit), thorough tier only",
             rule=RULE, timeout=1800.0),
    SubCheck("long_messages", evaluate_huge, enum=(lambda tier: 8 if tier == "quick" else 32,
                                                   lambda i, tier: __import__("pbt.props.c01", fromlist=["x"]).long_case(i, tier)),
             shards=(8, 16), exhaustive_space="the fixed family of 1,100..2,600-bit (thorough ..3,800) messages of C01's "
                                              "long_messages, compared with the reference coder in both directions",
             rule=RULE, timeout=600.0),
]

TECHNIQUE = "property-based differential testing (Hypothesis) against an independent integer-arithmetic reference coder"
LEVEL_TEXT = ("Generated-input search with a reference-model oracle written from the published scheme on Python "
              "ints (no string arithmetic, no numpy, no dsw import): 8,000 (quick) / 70,000 (thorough) cases plus long (1,100..3,800-bit) and, in the thorough tier, 14,300-bit messages, both "
              "directions (encode equality; decode of arbitrary walks at several widths), all out-degrees, tables, "
              "both modes. Catches format changes applied consistently to encoder and decoder, which the round trip "
              "of C01 cannot see. Exploration only.")
LEVEL_NOTE = "Trusted: the reference coder in pbt/oracles.py (about 80 lines, reviewed against the statement) and numpy."
