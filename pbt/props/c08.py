"""C08 - repair recovers the original strand for separated interior edits."""
from hypothesis import strategies as st

from pbt import gens, oracles as o, repairing
from pbt.core import Outcome, Raised, SubCheck, bad, discard

PROPERTY = "C08"
RULE = ("Graphs come from the library's generation (orders 1..6, thresholds 1..3, masks built so that the oracle's "
        "graph exists); a walk of length n in [4k+2, 12k+10] is drawn from a retained start vertex. (a) EVERY single "
        "edit of the walk (every position in [k, n-2k), substitution by each other nucleotide, insertion of each "
        "nucleotide, deletion) is enumerated per walk; (b) drawn edit sets with gaps >= 3k+2. Oracle: the original "
        "walk must be among the candidates whenever the detected count equals the number of edits; a single edit is "
        "detected iff the corrupted strand is not a walk (independent walk predicate); substitutions also with indel "
        "handling off; with and without the check of the original. Non-trivial: detected count equals edit count "
        ">= 1.")
ASSUMPTIONS = ["edit positions are coordinates in the original walk; an insertion at p places the symbol before w[p]; "
               "edit sets are applied right to left; a substitution always changes the symbol",
               "cases whose library graph differs from the oracle's graph are excluded here (C03 reports them)"]


def setup(case):
    spec = case["graph"]
    rows, reason = gens.library_graph(spec)
    if rows is None:
        return None, reason
    k, start, walk = spec["k"], case["start"], case["walk"]
    if not rows[start] or not o.is_walk(rows, k, start, walk):
        return None, "generation_differs"
    return rows, None


@st.composite
def single_cases(draw, tier):
    spec = draw(gens.generated_graphs(1, 6, {1: 4, 2: 8, 3: 8, 4: 4, 5: 1, 6: 1}))
    k = spec["k"]
    starts = [v for v, r in enumerate(spec["rows"]) if r]
    start = starts[draw(st.integers(0, len(starts) - 1))]
    n = draw(st.integers(4 * k + 2, 12 * k + 10))
    walk = draw(gens.walks(spec, start, n, n))
    return {"graph": spec, "start": start, "walk": walk, "check_len": draw(st.sampled_from([0, 0, 1, 4, 8])),
            "heap": draw(st.sampled_from(["1e9", "inf"]))}


def all_single_edits(walk, k):
    n = len(walk)
    for p in range(k, n - 2 * k):
        for c in "ACGT":
            if c != walk[p]:
                yield ("S", p, c)
            yield ("I", p, c)
        yield ("D", p, "")


def judge(rows, k, start, walk, corrupted, edits, check, has_indel, labels, heap=1e9, layout=None):
    """Run one repair and apply the statement.  Returns an error string or None."""
    result, lookups, _ = repairing.run_repair(rows, k, start, corrupted, check=check, has_indel=has_indel,
                                              heap_size=heap, layout=layout)
    what = "repair_dna(%r, k=%d, start=%d, check=%r, has_indel=%s) [original %r, edits %r]" \
           % (corrupted, k, start, check, has_indel, walk, edits)
    if isinstance(result, str):
        return "%s did not return within %d look-ups" % (what, lookups)
    if isinstance(result, Raised):
        return "%s raised %r" % (what, result)
    if not repairing.well_formed_result(result):
        return "%s returned a malformed result %r" % (what, result)
    candidates, statistics = result
    detected = statistics[0]
    still_walk = o.is_walk(rows, k, start, corrupted)
    if len(edits) == 1:
        if still_walk and detected != 0:
            return "%s reports %d detected error(s) although the corrupted strand is still a walk" % (what, detected)
        if not still_walk and detected != 1:
            return "%s reports %d detected error(s); a single edit that breaks the walk must be detected once" \
                   % (what, detected)
    if still_walk:
        labels.append("undetectable")
    if detected == len(edits):
        labels.append("detected_all")
        if walk not in candidates:
            return "%s detected %d error(s) = number of edits, but the original is not among the %d candidates %r" \
                   % (what, detected, len(candidates), candidates[:6])
    else:
        labels.append("detected_differs")
    return None


def evaluate_single(case):
    rows, reason = setup(case)
    if rows is None:
        return discard(reason)
    spec = case["graph"]
    k, start, walk = spec["k"], case["start"], case["walk"]
    check = o.ref_vt(walk, case["check_len"]) if case["check_len"] else None
    labels = ["k=%d" % k, "t=%d" % spec["t"], "check" if check else "no_check", "heap=" + case.get("heap", "1e9")]
    repaired = 0
    for edit in all_single_edits(walk, k):
        corrupted = gens.apply_edit(walk, edit)
        states = o.walk_states(rows, k, start, corrupted)
        sub = []
        if len(states) < len(corrupted):
            sub.append("latency=%d" % (len(states) - edit[1]))
            if len(states) - edit[1] == k - 1:
                sub.append("latency=k-1")
        heap = float(case.get("heap", "1e9"))
        detail = judge(rows, k, start, walk, corrupted, [edit], check, True, sub, heap)
        if detail:
            return bad(detail, labels + sub)
        if edit[0] == "S":
            detail = judge(rows, k, start, walk, corrupted, [edit], check, False, [], heap)
            if detail:
                return bad(detail, labels + sub)
        if "detected_all" in sub and "undetectable" not in sub:
            repaired += 1
            sub.append("kind:" + edit[0])
        labels += sub
    labels.append("edits_per_walk:%s" % ("0" if repaired == 0 else ("1-49" if repaired < 50 else "50+")))
    return Outcome(True, repaired > 0, sorted(set(labels)))


@st.composite
def multi_cases(draw, tier):
    spec = draw(gens.generated_graphs(1, 4, {1: 2, 2: 4, 3: 4, 4: 2}))
    k = spec["k"]
    starts = [v for v, r in enumerate(spec["rows"]) if r]
    start = starts[draw(st.integers(0, len(starts) - 1))]
    count = draw(st.sampled_from([2, 2, 3, 3, 4, 4, 5, 5, 2, 3, 7, 11, 12, 14]))
    # the first edit sits near the head; sometimes more than 1,024 clean nucleotides follow before the next one
    positions = [k + draw(st.integers(0, 2 * k))]
    long_gap = draw(st.sampled_from([False] * 11 + [True]))
    for index in range(count - 1):
        positions.append(positions[-1] + 3 * k + 2 + draw(st.integers(0, 2 * k + 2))
                         + (1100 if long_gap and index == 0 else 0))
    n = positions[-1] + 2 * k + 1 + draw(st.integers(0, 2 * k))
    walk = draw(gens.walks(spec, start, n, n))
    only_subs = draw(st.booleans())
    edits = []
    for p in positions:
        kind = "S" if only_subs else draw(st.sampled_from(["S", "I", "D"]))
        if kind == "S":
            c = [x for x in "ACGT" if x != walk[p]][draw(st.integers(0, 2))]
        elif kind == "I":
            c = "ACGT"[draw(st.integers(0, 3))]
        else:
            c = ""
        edits.append([kind, p, c])
    heap = draw(st.sampled_from(["1e9", "inf"])) if count <= 4 else "1e4"
    return {"graph": spec, "start": start, "walk": walk, "edits": edits,
            "check_len": draw(st.sampled_from([0, 0, 4, 8])), "heap": heap,
            "layout": draw(st.sampled_from([None, None, None, "F", "strided", "int32"]))}


def evaluate_multi(case):
    rows, reason = setup(case)
    if rows is None:
        return discard(reason)
    spec = case["graph"]
    k, start, walk = spec["k"], case["start"], case["walk"]
    n = len(walk)
    edits = [tuple(e) for e in case["edits"]]
    positions = [e[1] for e in edits]
    if any(p < k or p >= n - 2 * k for p in positions) or \
            any(b - a < 3 * k + 2 for a, b in zip(positions, positions[1:])):
        return discard("edit_set_outside_spacing_rule")
    corrupted = walk
    for edit in sorted(edits, key=lambda e: -e[1]):
        corrupted = gens.apply_edit(corrupted, edit)
    check = o.ref_vt(walk, case["check_len"]) if case["check_len"] else None
    labels = ["k=%d" % k, "edits=%s" % (len(edits) if len(edits) < 6 else ("6-10" if len(edits) <= 10 else "11+")),
              "check" if check else "no_check", "heap=" + case.get("heap", "1e9")]
    if n > 1024:
        labels.append("strand>1024nt")
    heap = float(case.get("heap", "1e9"))
    if len(edits) > 4:
        heap = min(heap, 1e4)  # replayed cases too: never enumerate an astronomically large candidate product
    detail = judge(rows, k, start, walk, corrupted, edits, check, True, labels, heap, case.get("layout"))
    if detail:
        return bad(detail, labels)
    if all(e[0] == "S" for e in edits):
        labels.append("subs_only")
        detail = judge(rows, k, start, walk, corrupted, edits, check, False, [], heap, case.get("layout"))
        if detail:
            return bad(detail, labels)
    return Outcome(True, "detected_all" in labels, labels)


@st.composite
def saturation_cases(draw, tier):
    """path_matching on its own: any arc subset / generated graph, any vertex, any ACGT string, any position."""
    import random
    if draw(st.booleans()):
        spec = draw(gens.generated_graphs(1, 4, {1: 2, 2: 5, 3: 4, 4: 2}))
        graph = {"k": spec["k"], "rows": spec["rows"]}
    else:
        graph = draw(gens.arc_subsets(1, 4, {1: 2, 2: 5, 3: 4, 4: 2}))
    k, rows = graph["k"], graph["rows"]
    with_arcs = [v for v, r in enumerate(rows) if r] or [0]
    previous = draw(st.sampled_from([with_arcs[draw(st.integers(0, len(with_arcs) - 1))],
                                     draw(st.integers(0, 4 ** k - 1))]))
    rng = random.Random(draw(st.integers(0, 2 ** 32 - 1)))
    location = draw(st.integers(0, 12))
    # the prefix before the position is free text; the rest follows the graph from a successor of the chosen vertex
    # (so that some repairs succeed) and may then be damaged again
    prefix = "".join(rng.choice("ACGT") for _ in range(location))
    tail = draw(gens.walks(graph, previous, 1, 30)) or rng.choice("ACGT")
    shape = draw(st.sampled_from(["walk", "substituted", "inserted", "deleted", "damaged_later", "random"]))
    if shape == "substituted":
        tail = rng.choice([c for c in "ACGT" if c != tail[0]]) + tail[1:]
    elif shape == "inserted":
        tail = rng.choice("ACGT") + tail
    elif shape == "deleted":
        tail = tail[1:] or rng.choice("ACGT")
    elif shape == "damaged_later" and len(tail) > 2:
        q = rng.randrange(1, len(tail))
        tail = rng.choice([c for c in "ACGT" if c != tail[0]]) + tail[1:q] + rng.choice("ACGT") + tail[q + 1:]
    elif shape == "random":
        tail = "".join(rng.choice("ACGT") for _ in range(rng.randrange(1, 20)))
    return {"graph": graph, "previous": previous, "text": prefix + tail, "location": location, "shape": shape,
            "indel": draw(st.booleans()), "alphabet": draw(st.sampled_from([None, None, None, "ACGT", "TGCA", "CATG"])),
            "layout": draw(st.sampled_from([None, None, None, "F", "strided", "offset", "int32", "readonly"])),
            "np_scalars": draw(st.sampled_from([False, False, True]))}


def evaluate_saturation(case):
    """Mechanism named by the property: 'saturation substitution / insertion / deletion at each recalled position,
    validated by walking the rest of the chunk'.  Oracle: exactly the single edits at that position after which the
    rest of the string follows the graph from the given vertex."""
    import numpy
    from pbt.core import import_dsw, lib_call
    dsw = import_dsw()
    graph = case["graph"]
    k, rows, v, p = graph["k"], graph["rows"], case["previous"], case["location"]
    alphabet = case["alphabet"] or "ACGT"
    text = case["text"].translate(str.maketrans("ACGT", alphabet))  # column j of the accessor is alphabet[j]
    canon = case["text"]
    table = o.succ_table(k)
    labels = ["k=%d" % k, "shape:" + case["shape"], "indel" if case["indel"] else "no_indel"] + (
        ["alphabet:" + case["alphabet"]] if case["alphabet"] else []) + (
        ["layout:" + case["layout"]] if case.get("layout") else [])
    want = []
    for j in o.live(rows, v):
        if o.NUC[j] != canon[p] and o.is_walk(rows, k, table[v][j], canon[p + 1:]):
            want.append((("S", p, alphabet[j]), text[:p] + alphabet[j] + text[p + 1:]))
    if case["indel"]:
        for j in o.live(rows, v):
            if o.is_walk(rows, k, table[v][j], canon[p:]):
                want.append((("I", p, alphabet[j]), text[:p] + alphabet[j] + text[p:]))
        if o.is_walk(rows, k, v, canon[p + 1:]):
            want.append((("D", p, text[p]), text[:p] + text[p + 1:]))
    acc = gens.accessor_of(graph, case.get("layout"))
    snapshot = numpy.array(acc, copy=True)
    arguments = dict(dna_sequence=text, accessor=acc, previous_index=v, occur_location=p, has_indel=case["indel"])
    if case["alphabet"]:
        arguments["nucleotides"] = case["alphabet"]
    if case.get("np_scalars"):
        arguments.update(previous_index=numpy.int64(v), occur_location=numpy.int64(p), dna_sequence=numpy.str_(text))
    got = lib_call(dsw.path_matching, **arguments)
    what = "path_matching(%r, previous_index=%d, occur_location=%d, has_indel=%s%s) on k=%d rows=%r" \
           % (text, v, p, case["indel"], ", nucleotides=%r" % case["alphabet"] if case["alphabet"] else "", k,
              rows if len(rows) <= 64 else "...")
    if isinstance(got, Raised):
        return bad("%s raised %r" % (what, got), labels)
    if not numpy.array_equal(acc, snapshot):
        return bad("%s modified the accessor" % what, labels)
    try:
        info, visited = got
        found = sorted(((str(a), int(b), str(c)), str(d)) for (a, b, c), d in info)
    except (TypeError, ValueError):
        return bad("%s returned %r, not (list of ((kind, position, nucleotide), string), count)" % (what, got), labels)
    if found != sorted(want):
        missing = [w for w in sorted(want) if w not in found]
        extra = [f for f in found if f not in want]
        return bad("%s: repairs %r; the single edits at position %d after which the rest follows the graph are %r "
                   "(missing %r, unexpected %r)" % (what, found[:6], p, sorted(want)[:6], missing[:3], extra[:3]),
                   labels)
    if not 0 <= int(visited) <= 9 * (len(text) + 1):
        return bad("%s reports %r visited vertices for a string of %d symbols" % (what, visited, len(text)), labels)
    kinds = {w[0][0] for w in want}
    labels += ["repairs:%s" % ("0" if not want else ("1" if len(want) == 1 else "2+"))] + ["has_" + x for x in kinds]
    return Outcome(True, len(want) >= 1, labels)


SUBCHECKS = [
    SubCheck("saturation_at_a_position", evaluate_saturation, strategy=saturation_cases, examples=(6000, 80000),
             shards=(16, 16), floors={"has_S": 800, "has_I": 400, "has_D": 300, "repairs:2+": 500, "repairs:0": 300,
                                      "alphabet:TGCA": 200, "k=4": 200},
             rule="The mechanism the property names (path_matching) on its own: arc subsets and generated graphs of "
                  "order 1..4, any vertex, an ACGT string whose part after the position is a walk from that vertex, "
                  "a walk with its first symbol substituted / an inserted symbol / a deleted symbol / a second "
                  "damage, or random; position 0..12; indel handling on/off; default alphabet or a permutation "
                  "passed as `nucleotides`. Oracle (independent walk predicate): the returned repairs are EXACTLY "
                  "the substitutions (other live arcs of the vertex), insertions (live arcs) and the deletion at "
                  "that position after which the rest of the string is a walk, each with its repaired string; the "
                  "accessor is unchanged. Non-trivial: at least one repair exists.", timeout=120.0),
    SubCheck("all_single_edits", evaluate_single, strategy=single_cases, examples=(320, 5000), shards=(16, 16),
             floors={"latency=k-1": 100, "kind:S": 150, "kind:I": 150, "kind:D": 150, "k=1": 15, "k=4": 15,
                     "check": 60}, rule=RULE, timeout=300.0),
    SubCheck("separated_edit_sets", evaluate_multi, strategy=multi_cases, examples=(2000, 20000), shards=(16, 16),
             floors={"detected_all": 300, "subs_only": 300, "edits=11+": 60, "strand>1024nt": 40, "heap=inf": 200}, rule=RULE, timeout=300.0),
]

TECHNIQUE = ("property-based testing (Hypothesis) over generated graphs and walks with complete enumeration of all "
             "single edits per walk; membership oracle (original walk among the candidates)")
LEVEL_TEXT = ("For 320 / 5,000 drawn (generated graph, walk) pairs every admissible single edit - all positions, all "
              "three kinds, all replacement nucleotides - is enumerated (about 50,000 / 800,000 repairs), plus 2,000 "
              "/ 20,000 drawn multi-edit sets obeying the spacing rule; detection is judged against an independent "
              "walk predicate and recovery as membership of the original walk, with and without its check, with "
              "indel handling on and (substitutions) off. Class floors cover every observed length, every edit kind "
              "and the maximal detection latency k-1."
              ' The saturation step (path_matching) is also checked on its own on arbitrary arc subsets: 6,000 / 80,000 (graph, vertex, string, position) cases against the exact set of single edits after which the rest of the string follows the graph.')
LEVEL_NOTE = ("Trusted: walk predicate and VT formula in pbt/oracles.py; generation is taken from the library and "
              "cross-checked with the closure oracle (differing cases are excluded here and reported by C03).")
