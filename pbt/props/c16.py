"""C16 - bit, number and DNA conversions are exact inverses at any length."""
import random

from hypothesis import strategies as st

from pbt import gens, oracles as o
from pbt.core import Outcome, Raised, SubCheck, bad, import_dsw, lib_call

PROPERTY = "C16"
RULE = ("Hypothesis draws bit lists and DNA strings of length 0..300 (quick) / 0..1,200 (thorough) with forced "
        "shapes (empty, all-zero / all-A, leading zeros, all ones / all-T, values just below 2^L / 4^L) and numbers "
        "below 2^L / 4^L as int and as str; oracle = Python int arithmetic with big-endian rendering (decimal text "
        "converted in chunks so the reference never depends on CPython's 4,300-digit limit). A 'huge' sub-check "
        "enumerates one case per string-typed function beyond 4,300 decimal digits (14,300 bits / 7,150 nt). "
        "Non-trivial: length > 8 (outside the suite's exhaustive 8-symbol range) and a non-zero value.")
ASSUMPTIONS = ["the integer-typed path is exercised on Python lists (the documented type) and Python ints",
               "numbers are canonical decimal strings; widths are >= the minimal width of the number"]


def ref_symbols(value, width, base):
    out = []
    for _ in range(width):
        out.append(value % base)
        value //= base
    return list(reversed(out))


@st.composite
def sequences(draw, tier, base):
    max_len = 300 if tier == "quick" else 1200
    shape = draw(st.sampled_from(["random", "random", "random", "zeros", "leading", "max", "near_max", "empty",
                                  "tiny", "one", "decimal_round", "decimal_round"]))
    if shape == "decimal_round":
        # values round in decimal (m * 10^j + r): interior zero blocks and exact block carries of the string path
        m = draw(st.one_of(st.integers(1, 999), st.sampled_from([2, 3, 5, 25, 125, 6 ** 20, 3 ** 30])))
        j = draw(st.one_of(st.integers(1, 80), st.sampled_from([9, 10, 18, 19, 21, 27, 40])))
        value = m * 10 ** j + draw(st.sampled_from([0, 0, 1, 2, 7])) * draw(st.sampled_from([1, 10 ** 9, 5 * 10 ** 8]))
        symbols = []
        while value:
            symbols.append(value % base)
            value //= base
        symbols.reverse()
        # optionally more symbols after the round prefix (the conversion passes through the round value)
        return [0] * draw(st.sampled_from([0, 0, 2])) + symbols + [draw(st.integers(0, base - 1))
                                                                   for _ in range(draw(st.sampled_from([0, 0, 1, 3])))]
    if shape == "empty":
        return []
    n = draw(st.one_of(st.integers(1, 12), st.integers(9, 80), st.integers(40, max_len), st.integers(40, max_len)))
    if shape == "tiny":
        n = draw(st.integers(1, 9))
    rng = random.Random(draw(st.integers(0, 2 ** 32 - 1)))
    seq = [rng.randrange(base) for _ in range(n)]
    if shape == "zeros":
        seq = [0] * n
    elif shape == "leading":
        z = draw(st.integers(1, n))
        seq = [0] * z + seq[z:]
    elif shape == "max":
        seq = [base - 1] * n
    elif shape == "near_max":
        seq = [base - 1] * n
        for _ in range(draw(st.integers(1, 3))):
            seq[n - 1 - draw(st.integers(0, min(n - 1, 6)))] = rng.randrange(base)
    elif shape == "one":
        seq = [0] * (n - 1) + [1]
    return seq


@st.composite
def cases(draw, tier):
    kind = draw(st.sampled_from(["bits", "dna"]))
    seq = draw(sequences(tier, 2 if kind == "bits" else 4))
    return {"kind": kind, "seq": "".join(map(str, seq)) if kind == "bits" else "".join(o.NUC[x] for x in seq),
            "pad": draw(st.sampled_from([0, 0, 1, 3, 17])), "verbose": draw(st.integers(0, 3)) == 0,
            "np_width": draw(st.sampled_from([False, False, True]))}


def evaluate(case):
    import numpy
    dsw = import_dsw()
    kind, text, pad = case["kind"], case["seq"], case["pad"]
    base = 2 if kind == "bits" else 4
    symbols = [int(c) for c in text] if kind == "bits" else [o.NUC.index(c) for c in text]
    value = 0
    for s in symbols:
        value = value * base + s
    width = len(symbols)
    labels = [kind, "len>8" if width > 8 else "len<=8", "zero" if value == 0 else "nonzero"]
    if width >= 49:
        labels.append("len>=49")
    if case.get("verbose") and kind == "bits":
        labels.append("verbose")
        if width >= 200:
            labels.append("verbose_len>=200")
    if width and value >= base ** width - 4:
        labels.append("near_capacity")
    verbose = {"verbose": True} if (case.get("verbose") and kind == "bits") else {}
    shared_list = list(symbols)  # one list object handed to every call: it must come back unchanged
    to_number = (lambda **kw: dsw.bit_to_number(bit_array=shared_list, **dict(kw, **verbose))) if kind == "bits" else \
        (lambda **kw: dsw.dna_to_number(dna_sequence=numpy.str_(text) if case.get("np_width") else text, **kw))
    render = (lambda number, n: dsw.number_to_bit(decimal_number=number, bit_length=n)) if kind == "bits" else \
        (lambda number, n: dsw.number_to_dna(decimal_number=number, dna_length=n))
    as_str = lib_call(to_number, is_string=True)
    as_int = lib_call(to_number, is_string=False)
    if kind == "bits" and shared_list != symbols:
        return bad("bit_to_number changed the caller's list: %r -> %r" % (symbols[:20], shared_list[:20]), labels)
    if isinstance(as_str, Raised) or isinstance(as_int, Raised):
        return bad("%s -> number raised %r / %r (len %d)" % (kind, as_str, as_int, width), labels)
    if not isinstance(as_str, str) or as_str != o.int_to_dec(value):
        return bad("%s -> number (string path) = %r, exact value is %s (len %d)"
                   % (kind, str(as_str)[:60], o.int_to_dec(value)[:60], width), labels)
    if isinstance(as_int, (str, bool)) or int(as_int) != value:
        return bad("%s -> number (integer path) = %r, exact value is %s" % (kind, as_int, value), labels)

    def expected_render(n):
        ref = ref_symbols(value, n, base)
        return ref if kind == "bits" else "".join(o.NUC[x] for x in ref)
    import numpy
    for number, name in ((as_str, "str"), (value, "int")):
        for n in sorted({width, width + pad}):
            length = numpy.int64(n) if case.get("np_width") else n  # e.g. a length taken from an array of lengths
            got = lib_call(render, number, length)
            want = expected_render(n)
            if isinstance(got, Raised) or (list(got) if kind == "bits" else got) != want:
                return bad("number -> %s (%s path, width %d) = %r, big-endian rendering is %r"
                           % (kind, name, n, str(got)[:80], str(want)[:80]), labels)
    return Outcome(True, width > 8 and value != 0, labels)


# ------------------------------------------------------------------------------------------- beyond 4,300 digits

HUGE = ["bit_to_number", "number_to_bit", "dna_to_number", "number_to_dna",
        "int:bit_to_number", "int:number_to_bit", "int:dna_to_number", "int:number_to_dna"]


def evaluate_huge(case):
    dsw = import_dsw()
    rng = random.Random(case["seed"])
    function = case["function"]
    labels = ["huge:" + function]
    if function.startswith("int:"):
        # integer-typed path far beyond any recursion depth or machine-word size (cheap: native big ints)
        width = 150000 if "bit" in function else 40000
        base = 2 if "bit" in function else 4
        value = rng.getrandbits(width * (1 if base == 2 else 2)) | (1 << (width * (1 if base == 2 else 2) - 1))
        symbols = ref_symbols(value, width, base)
        dna = "".join(o.NUC[x] for x in symbols) if base == 4 else None
        if function == "int:bit_to_number":
            got = lib_call(dsw.bit_to_number, bit_array=symbols, is_string=False)
            ok = not isinstance(got, (Raised, str, bool)) and got == value
        elif function == "int:number_to_bit":
            got = lib_call(dsw.number_to_bit, decimal_number=value, bit_length=width)
            ok = not isinstance(got, Raised) and list(got) == symbols
        elif function == "int:dna_to_number":
            got = lib_call(dsw.dna_to_number, dna_sequence=dna, is_string=False)
            ok = not isinstance(got, (Raised, str, bool)) and got == value
        else:
            got = lib_call(dsw.number_to_dna, decimal_number=value, dna_length=width)
            ok = got == dna
        if not ok:
            return bad("%s on a %d-symbol value returned %r" % (function, width, str(got)[:100]), labels)
        return Outcome(True, True, labels + ["int_path_width>=40000"])
    if function in ("bit_to_number", "number_to_bit"):
        width = 14300
        value = rng.getrandbits(width) | (1 << (width - 1))
        bits = ref_symbols(value, width, 2)
        text = o.int_to_dec(value)
        if function == "bit_to_number":
            got = lib_call(dsw.bit_to_number, bit_array=bits, is_string=True)
            ok = got == text
        else:
            got = lib_call(dsw.number_to_bit, decimal_number=text, bit_length=width)
            ok = (not isinstance(got, Raised)) and list(got) == bits
    else:
        width = 7150
        value = rng.getrandbits(2 * width) | (1 << (2 * width - 1))
        dna = "".join(o.NUC[x] for x in ref_symbols(value, width, 4))
        text = o.int_to_dec(value)
        if function == "dna_to_number":
            got = lib_call(dsw.dna_to_number, dna_sequence=dna, is_string=True)
            ok = got == text
        else:
            got = lib_call(dsw.number_to_dna, decimal_number=text, dna_length=width)
            ok = got == dna
    if not ok:
        return bad("%s on a %d-digit number (width %d) returned %r" % (function, len(text), width, str(got)[:100]),
                   labels)
    return Outcome(True, True, labels + ["digits>4300"])


SUBCHECKS = [
    SubCheck("conversions", evaluate, strategy=cases, examples=(4000, 30000), shards=(12, 16),
             floors={"len>=49": 300, "near_capacity": 150, "zero": 100, "bits": 800, "dna": 800,
                     "verbose_len>=200": 40}, rule=RULE),
    SubCheck("huge_numbers", evaluate_huge,
             enum=(lambda tier: 8 if tier == "quick" else 16,
                   lambda i, tier: {"function": HUGE[i % 8], "seed": 1000 + i}),
             shards=(8, 16), exhaustive_space="one (quick) / two (thorough) cases per string-typed conversion "
                                              "function with more than 4,300 decimal digits",
             rule=RULE, timeout=400.0),
]

TECHNIQUE = "property-based testing (Hypothesis): round trips and agreement with a Python-int reference rendering"
LEVEL_TEXT = ("Generated search over bit lists and DNA strings up to 300 / 1,200 symbols with forced boundary shapes "
              "(empty, zero, leading zeros, all-max, just below capacity) in both the string-typed and the "
              "integer-typed path, every result compared with an independent big-endian rendering; one case per "
              "string-typed function beyond CPython's 4,300-digit conversion limit. Exploration only.")
LEVEL_NOTE = "Trusted: Python int arithmetic; the chunked decimal conversion in pbt/oracles.py (self-tested)."
