"""C18 - shuffle tables are reproducible per-vertex permutations."""
import json
import os
import random
import subprocess
import sys

from hypothesis import strategies as st

from pbt import coding, gens, oracles as o
from pbt.core import Outcome, REPO, Raised, SubCheck, bad, captured_stdout, import_dsw, lib_call

PROPERTY = "C18"
RULE = ("Tables: observed lengths 1..6 x seeds (0, 1, 2021, boundary and drawn 32-bit seeds): shape, permutation "
        "rows, equality of two calls with the same seed, equality with a fresh interpreter (one subprocess per "
        "batch), silence and untouched stdlib-random / module state. Induced digit map: ALL 24 permutations x 15 "
        "non-empty live-arc patterns x all digits pushed through encode/decode (both modes where the radix allows) "
        "on an order-1 graph whose start row carries the pattern; must be a bijection onto the live arcs, equal to "
        "'the live arc whose table entry is d-th smallest', inverted by decode. Walk-invariance: drawn graphs and "
        "strings, decode accepts with a table iff it accepts without. Non-trivial: non-identity permutation on a "
        "partial pattern (out-degree 2 or 3) / seed other than the doctest's.")
ASSUMPTIONS = ["seeds are integers in [0, 2^32) as numpy requires; the numpy global random state may change"]

MODULES = ["dsw.spiderweb", "dsw.graphized", "dsw.operation", "dsw.biofilter"]
DOC_TABLE_2021 = [[3, 2, 1, 0], [2, 3, 1, 0], [3, 1, 0, 2], [0, 3, 1, 2], [3, 2, 0, 1], [1, 0, 3, 2], [0, 3, 1, 2],
                  [2, 0, 1, 3], [2, 3, 0, 1], [1, 0, 3, 2], [2, 0, 1, 3], [0, 1, 3, 2], [2, 3, 1, 0], [2, 0, 3, 1],
                  [0, 1, 3, 2], [0, 3, 2, 1]]


def module_state():
    out = {}
    for name in MODULES:
        module = sys.modules.get(name)
        if module is not None:
            out[name] = {key: id(value) for key, value in vars(module).items() if not key.startswith("__")}
    return out


@st.composite
def table_cases(draw, tier):
    k = draw(st.sampled_from([1, 2, 2, 3, 3, 4, 5, 6]))
    seed = draw(st.one_of(st.sampled_from([0, 1, 2, 2021, 2 ** 32 - 1, 2 ** 31]), st.integers(0, 2 ** 32 - 1)))
    return {"k": k, "seed": seed, "verbose_twin": draw(st.booleans())}


def evaluate_table(case):
    import numpy
    dsw = import_dsw()
    k, seed = case["k"], case["seed"]
    labels = ["k=%d" % k, "seed=0" if seed == 0 else ("seed=2021" if seed == 2021 else "seed=other")]
    std_state = random.getstate()
    modules_before = module_state()
    with captured_stdout() as out:
        first = lib_call(dsw.create_random_shuffles, observed_length=k, random_seed=seed)
    if isinstance(first, Raised):
        return bad("create_random_shuffles(%d, %d) raised %r" % (k, seed, first), labels)
    if out.getvalue():
        return bad("create_random_shuffles printed %r with verbose=False" % out.getvalue()[:60], labels)
    if random.getstate() != std_state:
        return bad("create_random_shuffles changed the state of the standard-library random module", labels)
    if module_state() != modules_before:
        return bad("create_random_shuffles changed module-level state of dsw", labels)
    if not isinstance(first, numpy.ndarray) or tuple(first.shape) != (4 ** k, 4):
        return bad("table has shape %r, expected %r" % (getattr(first, "shape", None), (4 ** k, 4)), labels)
    for v in range(4 ** k):
        if sorted(int(x) for x in first[v]) != [0, 1, 2, 3]:
            return bad("row %d of the table for k=%d seed=%d is %r, not a permutation of 0..3"
                       % (v, k, seed, first[v].tolist()), labels)
    numpy.random.seed((seed * 7 + 13) % 2 ** 32)  # disturb the global state between the two calls
    numpy.random.random(5)
    with captured_stdout():
        second = lib_call(dsw.create_random_shuffles, observed_length=k,
                          random_seed=numpy.int64(seed) if seed < 2 ** 62 and seed % 2 else seed,
                          verbose=case["verbose_twin"])
    if isinstance(second, Raised):
        return bad("second call (verbose=%s) raised %r" % (case["verbose_twin"], second), labels)
    if not numpy.array_equal(first, second):
        return bad("two calls with seed %d (k=%d) gave different tables (second call verbose=%s)"
                   % (seed, k, case["verbose_twin"]), labels)
    if k == 2 and seed == 2021 and first.tolist() != DOC_TABLE_2021:
        return bad("table for k=2, seed=2021 differs from the documented one", labels)
    return Outcome(True, seed != 2021, labels)


# ------------------------------------------------------------------------------------------- fresh interpreter

def evaluate_fresh(case):
    import numpy
    dsw = import_dsw()
    pairs = [(k, seed) for k in (1, 2, 3, 4) for seed in (0, 1, 7, 2021, case["base"] % 2 ** 32,
                                                          (case["base"] * 2654435761) % 2 ** 32)]
    script = ("import sys, json; sys.path.insert(0, %r); from dsw import create_random_shuffles as c; "
              "print(json.dumps([c(observed_length=k, random_seed=s).tolist() for k, s in %r]))" % (REPO, pairs))
    env = dict(os.environ, PYTHONHASHSEED=str(case["base"] % 1000))
    done = subprocess.run([sys.executable, "-c", script], capture_output=True, text=True, timeout=120, env=env)
    if done.returncode != 0:
        return bad("fresh interpreter failed: %s" % done.stderr[-300:])
    remote = json.loads(done.stdout.strip().splitlines()[-1])
    for (k, seed), table in zip(pairs, remote):
        local = dsw.create_random_shuffles(observed_length=k, random_seed=seed)
        if local.tolist() != table:
            return bad("create_random_shuffles(k=%d, seed=%d) differs between this process and a fresh interpreter"
                       % (k, seed), ["fresh_process"])
    return Outcome(True, True, ["fresh_process", "pairs=%d" % len(pairs)])


# ------------------------------------------------------------------------------------------- induced digit map

def enum_map_size(tier):
    return 24 * 15


def enum_map_case(i, tier):
    return {"perm": i // 15, "pattern": i % 15 + 1, "start": (i * 7) % 4}


def evaluate_map(case):
    perm, pattern, start = gens.PERMS[case["perm"]], case["pattern"], case["start"]
    rows = [15, 15, 15, 15]
    rows[start] = pattern
    table = [gens.IDENTITY] * 4
    table[start] = case["perm"]
    live = o.live(rows, start)
    radix = len(live)
    labels = ["radix=%d" % radix]
    nontrivial = radix in (2, 3) and perm != [0, 1, 2, 3]
    if radix == 1:
        return Outcome(True, False, labels)
    expected_order = sorted(live, key=lambda j: perm[j])
    for fast in (False, True):
        if fast and radix == 3:
            continue
        firsts = []
        for d in range(radix):
            if fast:
                bits = format(d, "b").zfill(1 if radix == 2 else 2) + "1"
            else:
                bits = format(d + radix, "b")
            case_c = {"graph": {"k": 1, "rows": rows, "start": start}, "bits": bits, "table": table, "fast": fast,
                      "vt": 0, "table_dtype": ["int64", "float64", "int8"][(case["perm"] + case["pattern"]) % 3],
                      "table_layout": [None, "F", "strided", "offset"][(case["perm"] // 3 + case["pattern"]) % 4]}
            strand, _ = coding.run_encode(case_c)
            if isinstance(strand, (Raised,)) or strand == "BUDGET" or not strand:
                return bad("encode failed for digit %d (perm %r, pattern %s, fast=%s): %r"
                           % (d, perm, bin(pattern), fast, strand), labels)
            if strand[0] != o.NUC[expected_order[d]]:
                return bad("digit %d at a vertex with live arcs %s and table row %r selects %r; the live arc whose "
                           "table entry is %d-th smallest is %r (fast=%s)"
                           % (d, [o.NUC[j] for j in live], perm, strand[0], d, o.NUC[expected_order[d]], fast), labels)
            if not o.is_walk(rows, 1, start, strand):
                return bad("shuffled strand %r is not a walk (perm %r, pattern %s)" % (strand, perm, bin(pattern)),
                           labels)
            back = coding.run_decode(case_c, strand)
            if isinstance(back, (Raised, str)) or "".join(str(int(x)) for x in back) != bits:
                return bad("decode does not invert the shuffled digit map: bits %s -> %r -> %r (perm %r, pattern %s, "
                           "fast=%s)" % (bits, strand, back, perm, bin(pattern), fast), labels)
            firsts.append(strand[0])
        if sorted(firsts) != sorted(o.NUC[j] for j in live):
            return bad("digit -> arc map is not a bijection onto the live arcs: %r vs %r" % (firsts, live), labels)
    return Outcome(True, nontrivial, labels)


# ------------------------------------------------------------------------------------------- walk invariance

@st.composite
def invariance_cases(draw, tier):
    graph = draw(gens.arc_subsets(1, 3))
    starts = [v for v, r in enumerate(graph["rows"]) if r] or [0]
    graph = dict(graph, start=starts[draw(st.integers(0, len(starts) - 1))])
    walk = draw(gens.walks(graph, graph["start"], 0, 20))
    text = draw(st.one_of(st.just(walk), gens.edits(walk, 1), gens.edits(walk, 2), gens.any_strings(12)))
    return {"graph": graph, "text": text, "table": draw(gens.tables(graph["k"], allow_none=False)),
            "width": draw(st.integers(0, 8))}


def evaluate_invariance(case):
    graph = case["graph"]
    walk = o.is_walk(graph["rows"], graph["k"], graph["start"], case["text"])
    width = 2 * len(case["text"]) + case["width"]
    base = {"graph": graph, "bits": "0" * width, "fast": False, "vt": 0}
    plain = coding.run_decode(dict(base, table=None), case["text"])
    shuffled = coding.run_decode(dict(base, table=case["table"]), case["text"])
    labels = ["walk" if walk else "not_walk"]
    for name, result in (("without", plain), ("with", shuffled)):
        accepted = not isinstance(result, (Raised, str))
        if accepted != walk:
            return bad("decode %s a table %s the string %r, which is %s a walk"
                       % (name, "accepts" if accepted else "rejects (%r)" % result, case["text"],
                          "" if walk else "not"), labels)
    return Outcome(True, walk and len(case["text"]) >= 2, labels)


@st.composite
def reuse_cases(draw, tier):
    first = draw(gens.coding_graphs(1, 3, weights={1: 1, 2: 3, 3: 2}))
    k = first["k"]
    second = draw(gens.coding_graphs(k, k))
    return {"graphs": [first, second, first], "table": draw(gens.tables(k, allow_none=False)),
            "bits": [draw(gens.messages(24, min_len=1)) for _ in range(3)], "fast": draw(st.booleans()),
            "table_order": draw(st.sampled_from(["C", "C", "F", "strided"]))}


def evaluate_reuse(case):
    """The caller keeps ONE table object and uses it with several graphs of the same order, one after the other."""
    import numpy
    dsw = import_dsw()
    table = numpy.array(gens.table_rows(case["table"]), dtype=int)  # a private object, deliberately not pooled
    if case.get("table_order") == "F":
        table = numpy.asfortranarray(table)  # e.g. a table loaded from a Fortran-ordered .npy file
    elif case.get("table_order") == "strided":
        table = numpy.concatenate([table, table], axis=1)[:, :4]  # a view into a wider buffer
    original = table.copy()
    for graph, bits in zip(case["graphs"], case["bits"]):
        rows, k, start = graph["rows"], graph["k"], graph["start"]
        fast = case["fast"] and not any(o.out_degree(rows, v) == 3 for v in o.reachable(rows, k, start))
        acc = gens.accessor_of(graph)
        strand = lib_call(dsw.encode, _twice=False, binary_message=gens.bits_of(bits), accessor=acc, start_index=start,
                          shuffles=table, is_faster=fast)
        if isinstance(strand, Raised) or not o.is_walk(rows, k, start, strand):
            return bad("with a table object that was used on another graph before, encode gives %r, which is not a "
                       "walk of the current graph (k=%d start=%d bits=%s)" % (strand, k, start, bits), ["reuse"])
        back = lib_call(dsw.decode, _twice=False, dna_sequence=strand, bit_length=len(bits), accessor=acc,
                        start_index=start, shuffles=table, is_faster=fast)
        if isinstance(back, Raised) or "".join(str(int(x)) for x in back) != bits:
            return bad("with a re-used table object decode(encode(%s)) = %r" % (bits, back), ["reuse"])
        if not numpy.array_equal(table, original):
            return bad("encode/decode changed the caller's shuffle table: row %d is now %r"
                       % (int(numpy.nonzero((table != original).any(axis=1))[0][0]),
                          table[int(numpy.nonzero((table != original).any(axis=1))[0][0])].tolist()), ["reuse"])
    return Outcome(True, True, ["reuse", "k=%d" % case["graphs"][0]["k"], "fast" if case["fast"] else "normal",
                                "table_order:" + case.get("table_order", "C")])


SUBCHECKS = [
    SubCheck("tables", evaluate_table, strategy=table_cases, examples=(600, 8000), shards=(8, 16),
             floors={"seed=0": 20, "k=6": 20}, rule=RULE),
    SubCheck("fresh_interpreter", evaluate_fresh, enum=(lambda tier: 2 if tier == "quick" else 12,
                                                        lambda i, tier: {"base": 97 + 1009 * i}),
             shards=(2, 12), exhaustive_space="fixed batches of (k, seed) pairs recomputed in a fresh interpreter",
             rule=RULE, timeout=180.0),
    SubCheck("digit_map_all", evaluate_map, enum=(enum_map_size, enum_map_case), shards=(8, 8),
             exhaustive_space="all 24 permutations x 15 non-empty live-arc patterns x all digits x both modes",
             rule=RULE),
    SubCheck("walk_invariance", evaluate_invariance, strategy=invariance_cases, examples=(1500, 15000),
             shards=(8, 16), floors={"walk": 300, "not_walk": 300}, rule=RULE),
    SubCheck("table_reused_across_graphs", evaluate_reuse, strategy=reuse_cases, examples=(500, 5000), shards=(8, 16),
             rule=RULE),
]

TECHNIQUE = ("complete enumeration of permutation x live-pattern x digit through encode/decode, plus property-based "
             "testing (Hypothesis) of table generation (seeds, fresh interpreter) and of walk invariance")
LEVEL_TEXT = ("Exhaustive over the 24 x 15 permutation/pattern combinations and all digits for the induced digit map "
              "(bijection, documented rank rule, decode inverse; both modes); generated search over observed "
              "lengths 1..6 and seeds (incl. 0 and boundary values) for shape, permutation rows, reproducibility "
              "in-process and across a fresh interpreter, silence and untouched stdlib/module state; generated "
              "search that decode accepts the same strings with and without a table.")
LEVEL_NOTE = ("Trusted: numpy's legacy seeding being deterministic; 'no other effect' is observed as stdout, "
              "stdlib random state and dsw module attribute identity only.")
