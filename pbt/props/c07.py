"""C07 - the path check is the documented VT function and sees every substitution."""
import random

from hypothesis import strategies as st

from pbt import gens, oracles as o
from pbt.core import Outcome, Raised, SubCheck, bad, import_dsw, lib_call

PROPERTY = "C07"
RULE = ("Formula: strands of length 0..300 (quick) / 0..2,000 (thorough) incl. long ascent-rich ones x check lengths "
        "1..128 (dense in 1..12), compared with an independent implementation of the stated formula. Edits: for each drawn strand of "
        "length <= 40 ALL single substitutions and ALL single C/G/T insertions and deletions are enumerated; each "
        "neighbour must have a different check and decode(neighbour, vt_check=original) on the complete graph must "
        "raise ValueError. Non-trivial (formula): >= 1 ascent and position sum >= 4^(n-1) (the modulus matters) or a reduced sum >= 2^32; "
        "(edits): strand length >= 2.")
ASSUMPTIONS = ["strands are over A, C, G, T; check length n >= 1",
               "insertions/deletions of A are excluded, as in the statement (A has value 0 and can be invisible)"]


@st.composite
def strands(draw, max_len):
    shape = draw(st.sampled_from(["random", "random", "ascending", "periodic", "empty", "single", "homopolymer"]))
    if shape == "empty":
        return ""
    if shape == "single":
        return draw(st.sampled_from("ACGT"))
    n = draw(st.one_of(st.integers(2, 20), st.integers(2, max_len)))
    if shape == "homopolymer":
        return draw(st.sampled_from("ACGT")) * n
    if shape == "periodic":
        unit = draw(st.text(alphabet="ACGT", min_size=1, max_size=4))
        return (unit * (n // len(unit) + 1))[:n]
    rng = random.Random(draw(st.integers(0, 2 ** 32 - 1)))
    if shape == "ascending":
        return "".join(rng.choice(["AC", "AG", "AT", "CG", "CT", "GT", "ACG", "ACGT"]) for _ in range(n // 2))[:n]
    return "".join(rng.choice("ACGT") for _ in range(n))


@st.composite
def formula_cases(draw, tier):
    return {"np_str": draw(st.sampled_from([False, False, False, True])),
            "strand": draw(strands(300 if tier == "quick" else 2000)),
            "n": draw(st.one_of(st.integers(1, 12), st.sampled_from([1, 2, 9, 10, 11, 12]), st.integers(13, 80),
                              st.sampled_from([31, 32, 33, 34, 64, 65, 128])))}


def evaluate_formula(case):
    dsw = import_dsw()
    strand, n = case["strand"], case["n"]
    want = o.ref_vt(strand, n)
    argument = strand
    if case.get("np_str"):
        import numpy
        argument = numpy.str_(strand)  # what iterating over a numpy array of strands hands out (a str subclass)
    got = lib_call(dsw.set_vt, dna_sequence=argument, vt_length=n)
    vals = [o.NUC.index(c) for c in strand]
    asc = sum(i for i in range(len(vals) - 1) if vals[i] < vals[i + 1])
    labels = ["n=%d" % n if n in (1, 2) else ("n>=33" if n >= 33 else ("n>=10" if n >= 10 else "n=3..9")),
              "empty" if not strand else ("len=1" if len(strand) == 1 else "len>=2")]
    if asc >= 4 ** (n - 1):
        labels.append("modulus_matters")
    if asc >= 32768:
        labels.append("ascent_sum>=2^15")
    wide = n >= 2 and asc % 4 ** (n - 1) >= 2 ** 32
    if wide:
        labels.append("reduced_sum>=2^32")
    if isinstance(got, Raised):
        return bad("set_vt(%r.. [%d nt], %d) raised %r" % (strand[:40], len(strand), n, got), labels)
    if not isinstance(got, str) or len(got) != n:
        return bad("set_vt(%r.. [%d nt], %d) = %r: not a string of exactly %d nucleotides"
                   % (strand[:40], len(strand), n, got, n), labels)
    if got != want:
        return bad("set_vt(%r.. [%d nt], %d) = %r, the documented function gives %r"
                   % (strand[:40], len(strand), n, got, want), labels)
    return Outcome(True, asc > 0 and (asc >= 4 ** (n - 1) or wide), labels)


@st.composite
def edit_cases(draw, tier):
    return {"strand": draw(strands(40)), "n": draw(st.sampled_from([1, 2, 2, 3, 4, 5, 6, 8, 12, 33, 40]))}


def neighbours(strand):
    for i in range(len(strand)):
        for c in "ACGT":
            if c != strand[i]:
                yield ("S", i, c), strand[:i] + c + strand[i + 1:]
        if strand[i] != "A":
            yield ("D", i, strand[i]), strand[:i] + strand[i + 1:]
    for i in range(len(strand) + 1):
        for c in "CGT":
            yield ("I", i, c), strand[:i] + c + strand[i:]


def evaluate_edits(case):
    dsw = import_dsw()
    strand, n = case["strand"], case["n"]
    labels = ["n=%d" % n, "len>=2" if len(strand) >= 2 else "len<2"]
    original = lib_call(dsw.set_vt, dna_sequence=strand, vt_length=n)
    if isinstance(original, Raised):
        return bad("set_vt(%r, %d) raised %r" % (strand, n, original), labels)
    complete = gens.accessor_of({"k": 1, "rows": [15] * 4})
    count = 0
    for edit, mutated in neighbours(strand):
        count += 1
        check = lib_call(dsw.set_vt, dna_sequence=mutated, vt_length=n)
        if isinstance(check, Raised) or check == original:
            return bad("single edit %r of %r leaves the check %r unchanged (n=%d): %r"
                       % (edit, strand, original, n, check), labels)
        own = lib_call(dsw.decode, dna_sequence=mutated, bit_length=2 * len(mutated) + 2, accessor=complete,
                       start_index=0, vt_check=check)
        if isinstance(own, Raised):
            return bad("decode rejected the strand %r with its own check %r: %r" % (mutated, check, own), labels)
        for fast in (False, True):
            decoded = lib_call(dsw.decode, dna_sequence=mutated, bit_length=2 * len(mutated) + 2, accessor=complete,
                               start_index=0, vt_check=original, is_faster=fast)
            if not (isinstance(decoded, Raised) and decoded.type is ValueError):
                return bad("decode (is_faster=%s) accepted the single-edit neighbour %r of %r with the original "
                           "check %r: %r" % (fast, mutated, strand, original, decoded), labels)
    labels.append("neighbours:%s" % ("0" if count == 0 else ("1-99" if count < 100 else "100+")))
    return Outcome(True, len(strand) >= 2, labels)


SUBCHECKS = [
    SubCheck("formula", evaluate_formula, strategy=formula_cases, examples=(6000, 80000), shards=(12, 16),
             floors={"modulus_matters": 800, "n>=10": 800, "n>=33": 400, "empty": 100, "len=1": 100}, rule=RULE),
    SubCheck("long_ascents", evaluate_formula,
             enum=(lambda tier: 48 if tier == "quick" else 480,
                   lambda i, tier: {"strand": (["AC", "AG", "CT", "ACGT", "AT", "CG"][i % 6] * 1200)[:
                                    360 + 37 * (i // 6) % 1700 + 60 * (i % 6)], "n": [9, 10, 11, 12][i % 4]}),
             shards=(8, 16), floors={"ascent_sum>=2^15": 20},
             exhaustive_space="fixed family of long ascent-rich strands (ascent-position sum beyond 2^15) x n = 9..12",
             rule=RULE),
    SubCheck("single_edits", evaluate_edits, strategy=edit_cases, examples=(800, 10000), shards=(16, 16),
             floors={"neighbours:100+": 100}, rule=RULE),
    SubCheck("wide_checks_on_long_strands", evaluate_formula,
             enum=(lambda tier: 48 if tier == "quick" else 384,
                   lambda i, tier: {"strand": (["AC", "ACGT", "AG", "CT", "AT", "CG", "ACG", "AGT"][i % 8] * 140000)[
                       :135000 + 2731 * i + 17 * (i % 8)], "n": [18, 19, 20, 24, 33, 40][(i // 8) % 6]}),
             shards=(16, 16), timeout=600.0, floors={"reduced_sum>=2^32": 40},
             exhaustive_space="fixed family of strands of 135,000..1,200,000 nucleotides whose ascent-position sum "
                              "exceeds 2^32, with checks of 18..40 symbols (position sums that need more than one "
                              "machine word when rendered)", rule=RULE),
    SubCheck("giant_strands", evaluate_formula,
             enum=(lambda tier: 4 if tier == "quick" else 8,
                   lambda i, tier: {"strand": (["AC", "CA", "ACGT", "TGCA", "AG", "GA", "CT", "TC"][i] * 600000)[
                       :1048576 + [7, 600, 1, 90001, 3, 5, 1048577, 2][i]], "n": [20, 5, 18, 9, 33, 3, 24, 11][i]}),
             shards=(4, 8), exhaustive_space="strands of 1,048,577..2,097,153 nucleotides (beyond 2^20) with ascents at "
                                             "even and at odd positions", rule=RULE, timeout=600.0),
]

TECHNIQUE = ("property-based testing (Hypothesis) against an independent VT formula, plus complete enumeration of all "
             "single edits of each drawn strand")
LEVEL_TEXT = ("Generated search: 6,000 / 80,000 strands (incl. empty, length 1, long ascent-rich) x check lengths "
              "1..12 against an independent implementation of the stated formula; for 800 / 10,000 strands of length "
              "<= 40 every single substitution and every single C/G/T insertion or deletion is enumerated and must "
              "change the check and be rejected by decode with the original check."
              ' A fixed family of strands of 135,000..1,200,000 nt with checks of 18..40 symbols covers position sums beyond 2^32.')
LEVEL_NOTE = "Trusted: the 10-line reference formula in pbt/oracles.py; decode on the complete order-1 graph."
