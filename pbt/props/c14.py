"""C14 - the three graph representations are interchangeable."""
from collections import Counter

from hypothesis import strategies as st

from pbt import gens, oracles as o
from pbt.core import Outcome, Raised, SubCheck, bad, import_dsw, lib_call

PROPERTY = "C14"
RULE = ("Arbitrary arc subsets of the order-k de Bruijn graph (k = 1..4 quick, ..6 thorough; matrices up to k = 4/5) "
        "drawn by Hypothesis. Oracle: own construction of the latter map / matrix / vertex list from the arc set and "
        "own enumeration of all d-step walks (d <= 7) for leaf queries; both round trips must be exact. Illegal "
        "matrices: every single non-shift arc (16 x 12) added to the empty and to the complete order-2 matrix is "
        "enumerated, and drawn legal matrices plus one drawn non-shift arc for k = 2..3 (order 1 has no illegal arc). Non-trivial: some row has "
        "out-degree 1..3 and some row is empty.")
ASSUMPTIONS = ["accessors are arc subsets of the de Bruijn graph; the order of successors inside a latter-map list "
               "is not asserted (compared as multisets)"]


@st.composite
def graph_cases(draw, tier):
    kmax = 4 if tier == "quick" else 6
    graph = draw(gens.arc_subsets(1, kmax, {1: 2, 2: 4, 3: 4, 4: 2, 5: 1, 6: 1}))
    n = 4 ** graph["k"]
    queries = draw(st.lists(st.tuples(st.integers(0, n - 1), st.one_of(st.integers(0, 4), st.integers(0, 7))),
                             min_size=1, max_size=4))
    return {"graph": graph, "queries": [list(q) for q in queries],
            "matrix_dtype": draw(st.sampled_from(["int64", "int64", "uint8", "bool", "int32", "uint16", "float64", "int8",
                                                  "int16"])),
            "verbose": draw(st.integers(0, 3)) == 0, "layout": draw(st.sampled_from([None, None, "F", "strided", "readonly"])),
            "maximum_length": draw(st.sampled_from([None, None, None, 1, 3, 0]))}


def leaf_multiset(rows, k, v, depth):
    table = o.succ_table(k)
    level = Counter({v: 1})
    for _ in range(depth):
        nxt = Counter()
        for u, count in level.items():
            for j in o.live(rows, u):
                nxt[table[u][j]] += count
        level = nxt
    return level


def evaluate_graph(case):
    import numpy
    dsw = import_dsw()
    graph = case["graph"]
    k, rows = graph["k"], graph["rows"]
    n = 4 ** k
    table = o.succ_table(k)
    acc = gens.accessor_of(graph, case.get("layout"))
    snapshot = numpy.ascontiguousarray(acc).copy()
    verbose = bool(case.get("verbose"))
    degrees = {o.out_degree(rows, v) for v in range(n)}
    labels = ["k=%d" % k] + (["verbose"] if verbose else []) + (["layout"] if case.get("layout") else [])
    nontrivial = bool(degrees & {1, 2, 3}) and 0 in degrees
    with_arcs = [v for v in range(n) if rows[v]]

    latter_map = lib_call(dsw.accessor_to_latter_map, _hold=False, accessor=acc, verbose=verbose)  # edited below
    if isinstance(latter_map, Raised):
        return bad("accessor_to_latter_map raised %r" % latter_map, labels)
    if sorted(int(key) for key in latter_map) != with_arcs:
        return bad("latter map keys %s, vertices with arcs %s (k=%d)"
                   % (sorted(int(x) for x in latter_map)[:10], with_arcs[:10], k), labels)
    for key, values in latter_map.items():
        want = sorted(table[int(key)][j] for j in o.live(rows, int(key)))
        if sorted(int(x) for x in values) != want:
            return bad("latter map lists %r for vertex %d, live successors are %r" % (values, int(key), want), labels)
    back = lib_call(dsw.latter_map_to_accessor, latter_map=latter_map, observed_length=k, verbose=verbose)
    if isinstance(back, Raised) or not numpy.array_equal(back, snapshot):
        return bad("accessor -> latter map -> accessor is not the identity (k=%d): %r" % (k, back), labels)

    listed = lib_call(dsw.obtain_vertices, accessor=acc)
    if isinstance(listed, Raised) or [int(x) for x in listed] != with_arcs:
        return bad("obtain_vertices returned %r, vertices with arcs are %r" % (listed, with_arcs[:12]), labels)

    if k <= (4 if len(case["queries"]) else 4) and n <= 1024:
        extra = {}
        if case.get("maximum_length") is not None:
            # the documented size guard: conversion is refused (MemoryError) from 4 ** maximum_length vertices on
            extra["maximum_length"] = k + case["maximum_length"]
            labels.append("maximum_length=k+%d" % case["maximum_length"])
        matrix = lib_call(dsw.accessor_to_adjacency_matrix, accessor=acc, verbose=verbose, **extra)
        if case.get("maximum_length") == 0:
            if not (isinstance(matrix, Raised) and matrix.type is MemoryError):
                return bad("accessor_to_adjacency_matrix(maximum_length=%d) on an order-%d graph: %r, MemoryError is "
                           "documented" % (k, k, matrix), labels)
            matrix = lib_call(dsw.accessor_to_adjacency_matrix, accessor=acc, verbose=verbose)
        if isinstance(matrix, Raised):
            return bad("accessor_to_adjacency_matrix raised %r" % matrix, labels)
        want = numpy.zeros((n, n), dtype=int)
        for (u, w) in o.arcs(rows, k):
            want[u, w] = 1
        if tuple(matrix.shape) != (n, n) or not numpy.array_equal(matrix, want):
            return bad("adjacency matrix does not have a 1 exactly at the arcs (k=%d)" % k, labels)
        back = lib_call(dsw.adjacency_matrix_to_accessor, matrix=matrix, verbose=verbose)
        if isinstance(back, Raised) or not numpy.array_equal(back, snapshot):
            return bad("accessor -> matrix -> accessor is not the identity (k=%d): %r" % (k, back), labels)
        dtype = case.get("matrix_dtype", "int64")
        typed = lib_call(dsw.adjacency_matrix_to_accessor, matrix=want.astype(dtype))
        if isinstance(typed, Raised) or not numpy.array_equal(typed, snapshot):
            return bad("adjacency matrix of dtype %s is not converted to the accessor of the same graph (k=%d): %r"
                       % (dtype, k, typed), labels)
        labels += ["matrix", "matrix_dtype:" + dtype]

    map_before = [(int(key), [int(x) for x in values]) for key, values in latter_map.items()]
    for v, depth in case["queries"]:
        want = leaf_multiset(rows, k, v, depth)
        for name, kwargs in (("accessor", {"accessor": acc}), ("latter_map", {"latter_map": latter_map})):
            got = lib_call(dsw.obtain_leaf_vertices, vertex_index=v, depth=depth, **kwargs)
            if isinstance(got, Raised) or Counter(int(x) for x in got) != want:
                return bad("obtain_leaf_vertices(%d, depth=%d) via %s = %r, end points of all %d-step walks are %r"
                           % (v, depth, name, got, depth, sorted(want.elements())[:20]), labels)
        if depth >= 2 and len(want) != sum(want.values()):
            labels.append("leaf_duplicates")
    if not numpy.array_equal(numpy.asarray(acc), snapshot):
        return bad("a conversion modified the accessor", labels)
    map_after = [(int(key), [int(x) for x in values]) for key, values in latter_map.items()]
    if map_after != map_before:
        return bad("after the leaf queries %r the latter map no longer lists exactly the vertices with arcs and their "
                   "successors: entries %r appeared or changed (k=%d)"
                   % (case["queries"], [e for e in map_after if e not in map_before][:4], k), labels)
    # the caller edits its latter map in place (as remove_nasty_arc does) and asks again
    if latter_map and case["queries"]:
        victim = sorted(latter_map)[case["queries"][0][0] % len(latter_map)]
        removed = latter_map[victim].pop(0)
        if not latter_map[victim]:
            del latter_map[victim]
        edited = list(rows)
        edited[int(victim)] &= ~(1 << table[int(victim)].index(int(removed)))
        for v, depth in case["queries"]:
            want = leaf_multiset(edited, k, v, depth)
            got = lib_call(dsw.obtain_leaf_vertices, vertex_index=v, depth=depth, latter_map=latter_map)
            if isinstance(got, Raised) or Counter(int(x) for x in got) != want:
                return bad("after removing the arc %d -> %d from the latter map in place, obtain_leaf_vertices(%d, "
                           "depth=%d) = %r, end points of all walks are %r"
                           % (victim, removed, v, depth, got, sorted(want.elements())[:20]), labels)
        labels.append("map_edited_in_place")
    return Outcome(True, nontrivial, labels)


# ------------------------------------------------------------------------------------------- illegal matrices

def illegal_pairs(k):
    table = o.succ_table(k)
    return [(u, w) for u in range(4 ** k) for w in range(4 ** k) if w not in table[u]]


def enum_illegal_size(tier):
    return 2 * 16 * 12


def enum_illegal_case(i, tier):
    pairs = illegal_pairs(2)
    u, w = pairs[i % len(pairs)]
    return {"k": 2, "base": "empty" if i < len(pairs) else "complete", "u": u, "w": w}


@st.composite
def illegal_cases(draw, tier):
    graph = draw(gens.arc_subsets(2, 3))
    k = graph["k"]
    pairs = illegal_pairs(k)
    u, w = pairs[draw(st.integers(0, len(pairs) - 1))]
    return {"k": k, "base": "rows", "rows": graph["rows"], "u": u, "w": w}


def evaluate_illegal(case):
    import numpy
    dsw = import_dsw()
    k, n = case["k"], 4 ** case["k"]
    rows = {"empty": [0] * n, "complete": [15] * n}.get(case["base"], case.get("rows"))
    matrix = numpy.zeros((n, n), dtype=int)
    for (u, w) in o.arcs(rows, k):
        matrix[u, w] = 1
    matrix[case["u"], case["w"]] = 1
    got = lib_call(dsw.adjacency_matrix_to_accessor, matrix=matrix)
    labels = ["illegal", "base:" + case["base"], "k=%d" % k]
    if isinstance(got, Raised) and got.type is ValueError:
        return Outcome(True, True, labels)
    return bad("matrix with the non-shift arc %d -> %d (k=%d, base %s) was not rejected with ValueError: %r"
               % (case["u"], case["w"], k, case["base"], got), labels)


def evaluate_large_matrix(case):
    """Orders 5 and 6 (1,024 / 4,096 vertices): accessor -> matrix -> accessor on a seeded arc subset, the matrix
    compared with an independent construction, plus one illegal arc far from / near the successor window."""
    import random
    import numpy
    dsw = import_dsw()
    k, rng = case["k"], random.Random(case["seed"])
    n = 4 ** k
    palette = [15, 15, 7, 11, 13, 14, 5, 10, 3, 12, 1, 2, 4, 8, 0, 0]
    rows = [rng.choice(palette) for _ in range(n)]
    acc = gens.accessor_of({"k": k, "rows": rows})
    snapshot = numpy.array(acc, copy=True)
    labels = ["k=%d" % k]
    matrix = lib_call(dsw.accessor_to_adjacency_matrix, _twice=False, accessor=acc)
    if isinstance(matrix, Raised):
        return bad("accessor_to_adjacency_matrix raised %r at order %d" % (matrix, k), labels)
    want = numpy.zeros((n, n), dtype=numpy.int8)
    succ = (numpy.arange(n).reshape(-1, 1) * 4 + numpy.arange(4)) % n
    live = ((numpy.array(rows).reshape(-1, 1) >> numpy.arange(4)) & 1).astype(bool)
    want[numpy.repeat(numpy.arange(n), 4)[live.reshape(-1)], succ.reshape(-1)[live.reshape(-1)]] = 1
    if tuple(matrix.shape) != (n, n) or not numpy.array_equal(matrix, want):
        return bad("adjacency matrix at order %d does not have a 1 exactly at the arcs (seed %d)" % (k, case["seed"]),
                   labels)
    back = lib_call(dsw.adjacency_matrix_to_accessor, _twice=False, matrix=matrix)
    if isinstance(back, Raised) or not numpy.array_equal(back, snapshot):
        where = "" if isinstance(back, Raised) else " (first differing row %d)" % int(
            numpy.nonzero((numpy.asarray(back) != snapshot).any(axis=1))[0][0])
        return bad("accessor -> matrix -> accessor is not the identity at order %d (seed %d): %r%s"
                   % (k, case["seed"], back if isinstance(back, Raised) else "accessor differs", where), labels)
    small = lib_call(dsw.adjacency_matrix_to_accessor, _twice=False, matrix=want)  # the same matrix held as int8
    if isinstance(small, Raised) or not numpy.array_equal(small, snapshot):
        return bad("int8 adjacency matrix at order %d is not converted to the accessor of the same graph" % k, labels)
    for _ in range(6):
        u = rng.randrange(n)
        w = rng.choice([(4 * u + rng.choice([-3, -1, 4, 6])) % n, (4 * u + n // 2 + rng.randrange(4)) % n,
                        (4 * u + 512 * 4 + rng.randrange(4)) % n, rng.randrange(n)])
        if w in [(4 * u + j) % n for j in range(4)]:
            continue
        want[u, w] = 1
        got = lib_call(dsw.adjacency_matrix_to_accessor, _twice=False, matrix=want)
        want[u, w] = 0
        if not (isinstance(got, Raised) and got.type is ValueError):
            return bad("order-%d matrix with the non-shift arc %d -> %d was not rejected with ValueError: %r"
                       % (k, u, w, got if isinstance(got, Raised) else "an accessor was returned"), labels)
        labels.append("illegal_arc_rejected")
    return Outcome(True, True, sorted(set(labels)))


SUBCHECKS = [
    SubCheck("large_matrices", evaluate_large_matrix,
             enum=(lambda tier: 4 if tier == "quick" else 16,
                   lambda i, tier: {"k": [5, 6][i % 2], "seed": 1000 + i + 97 * int(
                       __import__("os").environ.get("VERIF_SEED", "1") or 1)}),
             shards=(4, 8), timeout=600.0,
             exhaustive_space="seeded arc subsets of order 5 and 6 (4,096 x 4,096 matrices): both conversions, the "
                              "matrix entry by entry, and six single non-shift arcs each", rule=RULE),
    SubCheck("representations", evaluate_graph, strategy=graph_cases, examples=(2500, 25000), shards=(16, 16),
             floors={"matrix": 500, "leaf_duplicates": 50, "k=3": 200, "matrix_dtype:uint8": 100, "verbose": 200}, rule=RULE),
    SubCheck("illegal_order2_all", evaluate_illegal, enum=(enum_illegal_size, enum_illegal_case), shards=(4, 4),
             exhaustive_space="every single non-shift arc (16 x 12) added to the empty and to the complete order-2 "
                              "adjacency matrix", rule=RULE),
    SubCheck("illegal_drawn", evaluate_illegal, strategy=illegal_cases, examples=(600, 6000), shards=(4, 16),
             rule=RULE),
]

TECHNIQUE = ("property-based testing (Hypothesis) over arbitrary arc subsets with independent constructions of each "
             "representation; enumeration of all single illegal arcs at order 2")
LEVEL_TEXT = ("Generated search over arbitrary arc subsets (not only complete or vertex-induced graphs): exact round "
              "trips accessor<->latter map and accessor<->matrix, latter-map / matrix / vertex-list content against an "
              "independent construction, leaf queries at depth 0..7 from both representations against an own "
              "enumeration of walks (as multisets); rejection of illegal matrices exhaustively for single non-shift "
              "arcs at order 2 and sampled for orders 2..3."
              ' Orders 5 and 6 (4,096 x 4,096 matrices) are converted both ways on seeded arc subsets, with single non-shift arcs near and far from the successor window.')
LEVEL_NOTE = "Trusted: arc-set construction and walk enumeration in pbt/oracles.py / this module; numpy equality."
