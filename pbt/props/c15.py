"""C15 - string big-number arithmetic equals integer arithmetic."""
from hypothesis import strategies as st

from pbt import oracles as o
from pbt.core import Outcome, Raised, SubCheck, bad, import_dsw, lib_call

PROPERTY = "C15"
RULE = ("Hypothesis draws (operation, canonical decimal string, one-digit operand) from a mixture of shapes "
        "(lengths up to 300 / 1,500 digits plus a share of 4,290..6,000-digit numbers beyond CPython's int/str limit; uniform digits, 9..9, 10..0, 10..0d, single-digit runs with one perturbation, block mixtures, 0..999); "
        "oracle = Python int arithmetic and canonical rendering. Non-trivial: (more than 3 digits or operand > 4, "
        "i.e. outside the suite) and at least one carry/borrow/non-zero running remainder; distinct by full case.")
ASSUMPTIONS = ["the reference converts decimal text in chunks, so it does not depend on the 4,300-digit limit",
               "operands are single decimal digits; numbers are canonical decimal strings (no leading zeros)",
               "subtraction only with number >= operand; division only by 1..9 (division by 0 has no exact result)"]

DIGITS = "0123456789"


@st.composite
def decimals(draw, max_len):
    shape = draw(st.sampled_from(["uniform", "nines", "power", "power_d", "run", "blocks", "small", "uniform",
                                  "round_blocks", "round_blocks", "special_length", "reciprocal", "nine_run_tail"]))
    if shape == "small":
        return str(draw(st.integers(0, 999)))
    n = draw(st.one_of(st.integers(1, 12), st.integers(1, max_len), st.integers(1, max_len),
                       st.integers(4290, 6000) if draw(st.integers(0, 9)) == 0 else st.integers(1, 60)))
    if shape == "round_blocks":
        # short prefixes followed by runs of zeros: block products / quotients that are exact multiples of powers of
        # ten, interior all-zero blocks, and small tails
        parts = []
        for _ in range(draw(st.integers(1, 6))):
            prefix = draw(st.one_of(st.sampled_from(["5", "15", "25", "125", "2", "4", "75", "375", "8", "625", "1",
                                                     "35", "3", "6", "12", "16", "24", "36"]),
                                    st.integers(1, 999).map(str)))
            parts.append(prefix + "0" * draw(st.one_of(st.integers(1, 12), st.sampled_from([8, 9, 10, 17, 18, 19, 27]))))
        text = "".join(parts) + draw(st.one_of(st.sampled_from(["", "", "5", "00", "7", "2"]), st.integers(0, 99).map(str)))
        return text.lstrip("0") or "0"
    if shape == "reciprocal":
        # numbers around 10^j / b: the product with b just reaches (or just misses) the next power of ten
        j = draw(st.integers(1, 80))
        b = draw(st.integers(2, 9))
        return str(max(0, -(-10 ** j // b) + draw(st.integers(-2, 2))))
    if shape == "nine_run_tail":
        # ...9999d: a run of nines that ends in another digit (carries that start one place left of the run)
        head = draw(st.text(alphabet=DIGITS, min_size=0, max_size=12)).lstrip("0")
        return (head + "9" * draw(st.integers(1, 30)) + draw(st.sampled_from("012345678"))
                + "9" * draw(st.integers(0, 2))).lstrip("0") or "0"
    if shape == "special_length":
        n = draw(st.sampled_from([9, 18, 27, 64, 128, 255, 256, 257, 511, 512, 513, 768, 1023, 1024, 1025, 2048,
                                  4096, 4300, 4301]))
        head = draw(st.sampled_from(DIGITS[1:]))
        return head + draw(st.text(alphabet=DIGITS, min_size=n - 1, max_size=n - 1))
    if shape == "uniform":
        head = draw(st.sampled_from(DIGITS[1:]))
        return head + draw(st.text(alphabet=DIGITS, min_size=n - 1, max_size=n - 1))
    if shape == "nines":
        return "9" * n
    if shape == "power":
        return "1" + "0" * (n - 1)
    if shape == "power_d":
        return "1" + "0" * max(0, n - 2) + draw(st.sampled_from(DIGITS))
    if shape == "run":
        d = draw(st.sampled_from(DIGITS[1:]))
        text = list(d * n)
        pos = draw(st.integers(0, n - 1))
        text[pos] = draw(st.sampled_from(DIGITS[1:] if pos == 0 else DIGITS))
        return "".join(text)
    blocks, total = [], 0
    while total < n:
        size = draw(st.integers(1, max(1, min(40, n - total))))
        kind = draw(st.sampled_from(["0", "9", "r", "4", "5"]))
        blocks.append(draw(st.text(alphabet=DIGITS, min_size=size, max_size=size)) if kind == "r" else kind * size)
        total += size
    text = "".join(blocks).lstrip("0")
    return text or "0"


@st.composite
def cases(draw, tier):
    max_len = 300 if tier == "quick" else 1500
    op = draw(st.sampled_from(["add", "sub", "mul", "div"]))
    number = draw(decimals(max_len))
    base = draw(st.integers(1 if op == "div" else 0, 9))
    if op == "sub" and len(number) == 1 and int(number) < base:
        base = draw(st.integers(0, int(number)))
    return {"op": op, "number": number, "base": str(base), "thread": draw(st.sampled_from([False] * 7 + [True]))}


def schoolbook_states(op, number, base):
    """Replay the schoolbook algorithm on ints to report which (carry, digit, operand, position) states occur."""
    states, carried = set(), False
    digits = [int(c) for c in number]
    b = int(base)
    n = len(digits)

    def pos(i):
        return "only" if n == 1 else ("first" if i == 0 else ("last" if i == n - 1 else "middle"))
    if op == "add":
        carry = 0
        for i in range(n - 1, -1, -1):
            operand = b if i == n - 1 else 0
            states.add("@add:%d:%d:%d:%s" % (carry, digits[i], operand, pos(i)))
            carry = (digits[i] + operand + carry) // 10
            carried |= carry > 0
    elif op == "mul":
        carry = 0
        for i in range(n - 1, -1, -1):
            states.add("@mul:%d:%d:%d:%s" % (carry, digits[i], b, pos(i)))
            carry = (digits[i] * b + carry) // 10
            carried |= carry > 0
    elif op == "div":
        rem = 0
        for i in range(n):
            states.add("@div:%d:%d:%d:%s" % (rem, digits[i], b, pos(i)))
            rem = (rem * 10 + digits[i]) % b
            carried |= rem > 0
    else:
        borrow = 0
        for i in range(n - 1, -1, -1):
            operand = b if i == n - 1 else 0
            states.add("@sub:%d:%d:%d:%s" % (borrow, digits[i], operand, pos(i)))
            borrow = 1 if digits[i] - operand - borrow < 0 else 0
            carried |= borrow > 0
    return states, carried


def evaluate(case):
    dsw = import_dsw()
    op, number, base = case["op"], case["number"], case["base"]
    n, b = o.dec_to_int(number), int(base)
    function = {"add": dsw.calculus_addition, "sub": dsw.calculus_subtraction,
                "mul": dsw.calculus_multiplication, "div": dsw.calculus_division}[op]
    expected = {"add": lambda: o.int_to_dec(n + b), "sub": lambda: o.int_to_dec(n - b),
                "mul": lambda: o.int_to_dec(n * b), "div": lambda: (o.int_to_dec(n // b), str(n % b))}[op]()
    states, carried = schoolbook_states(op, number, base)
    classes = [op, "len>3" if len(number) > 3 else "len<=3", "operand>4" if b > 4 else "operand<=4",
               "carry" if carried else "no_carry", "len>=1000" if len(number) >= 1000 else "len<1000"]
    if len(number) > 4300:
        classes.append("len>4300")
    classes += sorted(states)
    nontrivial = (len(number) > 3 or b > 4) and carried
    if case.get("thread"):
        # the same call from another thread (fresh thread-local state): the result must not depend on the caller
        import threading
        box = []
        worker = threading.Thread(target=lambda: box.append(lib_call(function, number=number, base=base)))
        worker.start()
        worker.join()
        got = box[0]
        classes.append("other_thread")
    else:
        got = lib_call(function, number=number, base=base)
    if isinstance(got, Raised):
        return bad("%s(%r, %r) raised %r" % (op, number[:60], base, got), classes)
    if op == "div":
        got = tuple(got)
    if got != expected:
        return bad("%s(%r.. [%d digits], %r) returned %r, exact result is %r"
                   % (op, number[:40], len(number), base, str(got)[:80], str(expected)[:80]), classes)
    return Outcome(True, nontrivial, classes)


@st.composite
def chain_cases(draw, tier):
    start = draw(decimals(60 if tier == "quick" else 300))
    steps = draw(st.lists(st.tuples(st.sampled_from(["add", "sub", "mul", "div", "mul", "add"]), st.integers(0, 9),
                                    st.integers(0, 3)), min_size=2, max_size=12))
    return {"start": start, "steps": [list(step) for step in steps]}


def evaluate_chain(case):
    """A history: every result string is fed into a later call (as bit_to_number / encode do), and older results are
    used again after newer ones were derived from them."""
    dsw = import_dsw()
    functions = {"add": dsw.calculus_addition, "sub": dsw.calculus_subtraction,
                 "mul": dsw.calculus_multiplication, "div": dsw.calculus_division}
    strings, values = [case["start"]], [o.dec_to_int(case["start"])]
    labels = ["chain_steps:%s" % ("2-5" if len(case["steps"]) < 6 else "6-12")]
    for op, base, back in case["steps"]:
        index = max(0, len(strings) - 1 - back)  # the latest result, or one a few steps older
        if back:
            labels.append("older_result_reused")
        number, value = strings[index], values[index]
        if op == "div" and base == 0:
            base = 7
        if op == "sub" and value < base:
            op = "add"
        want = {"add": value + base, "sub": value - base, "mul": value * base, "div": value // base if base else 0}[op]
        got = lib_call(functions[op], number=number, base=str(base))
        if isinstance(got, Raised):
            return bad("%s(%r.., %d) raised %r inside a chain of calls" % (op, number[:40], base, got), labels)
        if op == "div":
            got, remainder = got
            if remainder != str(value % base):
                return bad("div(%r.., %d) remainder %r, exact %d (inside a chain)" % (number[:40], base, remainder,
                                                                                       value % base), labels)
        if got != o.int_to_dec(want):
            return bad("%s(%r.. [%d digits], %d) = %r inside a chain of calls on earlier results, exact result %s"
                       % (op, number[:40], len(number), base, str(got)[:60], o.int_to_dec(want)[:60]), labels)
        strings.append(got)
        values.append(want)
    return Outcome(True, len(case["steps"]) >= 3, sorted(set(labels)))


def evaluate_lifted_limit(case):
    """The same arithmetic in a fresh interpreter started with -X int_max_str_digits=0 (limit lifted), where the
    reference is simply Python's int arithmetic.  The library must not depend on the interpreter-wide setting."""
    import json
    import os
    import random as _random
    import subprocess
    import sys
    from pbt.core import REPO
    rng = _random.Random(case["seed"])
    jobs = []
    for _ in range(case["count"]):
        n = rng.choice([1, 5, 17, 40, 300, 1200, 4300, 4301, 5000])
        number = str(rng.randrange(1, 10)) + "".join(rng.choice("0123456789") for _ in range(n - 1))
        op = rng.choice(["add", "sub", "mul", "div"])
        jobs.append([op, number, str(rng.randrange(1 if op == "div" else 0, 10))])
    script = (
        "import sys, json; sys.path.insert(0, %r); import dsw\n"
        "jobs = json.load(sys.stdin); bad = []\n"
        "f = {'add': dsw.calculus_addition, 'sub': dsw.calculus_subtraction, 'mul': dsw.calculus_multiplication, "
        "'div': dsw.calculus_division}\n"
        "for op, number, base in jobs:\n"
        "    n, b = int(number), int(base)\n"
        "    if op == 'sub' and n < b: continue\n"
        "    want = str(n + b) if op == 'add' else str(n - b) if op == 'sub' else str(n * b) if op == 'mul' "
        "else [str(n // b), str(n %% b)]\n"
        "    try: got = f[op](number=number, base=base)\n"
        "    except Exception as exc: got = 'raised ' + type(exc).__name__\n"
        "    if (list(got) if op == 'div' and not isinstance(got, str) else got) != want: "
        "bad.append([op, number[:30], len(number), base, str(got)[:60]])\n"
        "print(json.dumps(bad))\n" % REPO)
    done = subprocess.run([sys.executable, "-X", "int_max_str_digits=0", "-c", script], input=json.dumps(jobs),
                          capture_output=True, text=True, timeout=300, env=dict(os.environ, PYTHONHASHSEED="0"))
    if done.returncode != 0:
        raise AssertionError("interpreter with lifted limit failed: " + done.stderr[-300:])
    wrong = json.loads(done.stdout.strip().splitlines()[-1])
    if wrong:
        return bad("with the int/str digit limit lifted (-X int_max_str_digits=0): %s(%s.. [%d digits], %s) = %s"
                   % tuple(wrong[0]), ["lifted_limit"])
    return Outcome(True, True, ["lifted_limit", "jobs=%d" % len(jobs)])


@st.composite
def concurrent_cases(draw, tier):
    jobs = []
    for _ in range(draw(st.integers(2, 4))):
        calls = []
        for _ in range(draw(st.integers(4, 12))):
            op = draw(st.sampled_from(["add", "sub", "mul", "div", "div", "mul"]))
            number = draw(decimals(120 if tier == "quick" else 400))
            if len(number) > 600:
                number = number[:600]
            base = draw(st.integers(1 if op == "div" else 0, 9))
            if op == "sub" and len(number) == 1 and int(number) < base:
                base = 0
            calls.append([op, number, str(base)])
        jobs.append(calls)
    return {"jobs": jobs, "rounds": draw(st.sampled_from([3, 6, 10]))}


def evaluate_concurrent(case):
    """Schedules: several threads call the four functions at the same time on their OWN numbers, with the interpreter
    switching threads every microsecond; every single result must be the exact one (no shared work space)."""
    import contextlib
    import io
    import sys
    import threading
    dsw = import_dsw()
    functions = {"add": dsw.calculus_addition, "sub": dsw.calculus_subtraction,
                 "mul": dsw.calculus_multiplication, "div": dsw.calculus_division}
    expected = []
    for calls in case["jobs"]:
        row = []
        for op, number, base in calls:
            value, b = o.dec_to_int(number), int(base)
            if op == "div":
                row.append((o.int_to_dec(value // b), str(value % b)))
            else:
                row.append(o.int_to_dec({"add": value + b, "sub": value - b, "mul": value * b}[op]))
        expected.append(row)
    wrong, barrier = [], threading.Barrier(len(case["jobs"]))

    def worker(index):
        try:
            barrier.wait(timeout=30)
        except threading.BrokenBarrierError:
            pass
        for round_index in range(case["rounds"]):
            for position, (op, number, base) in enumerate(case["jobs"][index]):
                try:
                    got = functions[op](number=number, base=base)
                    got = tuple(got) if op == "div" else got
                except Exception as exc:  # noqa - reported below
                    got = "raised %s: %s" % (type(exc).__name__, exc)
                if got != expected[index][position] and len(wrong) < 3:
                    wrong.append((index, round_index, op, number, base, got, expected[index][position]))

    old_interval = sys.getswitchinterval()
    threads = [threading.Thread(target=worker, args=(i,), daemon=True) for i in range(len(case["jobs"]))]
    try:
        sys.setswitchinterval(1e-6)
        with contextlib.redirect_stdout(io.StringIO()):
            for thread in threads:
                thread.start()
            for thread in threads:
                thread.join()
    finally:
        sys.setswitchinterval(old_interval)
    labels = ["threads=%d" % len(case["jobs"]), "rounds=%d" % case["rounds"]]
    if wrong:
        index, round_index, op, number, base, got, want = wrong[0]
        return bad("with %d threads calling concurrently, thread %d (round %d) got %s(%r.. [%d digits], %s) = %r, exact "
                   "result %r" % (len(case["jobs"]), index, round_index, op, number[:40], len(number), base,
                                  str(got)[:80], str(want)[:80]), labels)
    return Outcome(True, len(case["jobs"]) >= 2, labels)


SUBCHECKS = [
    SubCheck("concurrent_calls", evaluate_concurrent, strategy=concurrent_cases, examples=(320, 3200), shards=(16, 16),
             floors={"threads=4": 40}, timeout=120.0,
             rule="Schedules: 2..4 threads each run 4..12 operations on their own numbers (up to 120 / 400 digits) for "
                  "3..10 rounds at the same time, with the interpreter's switch interval set to one microsecond; "
                  "every result of every thread is compared with exact integer arithmetic. Non-trivial: always (two "
                  "or more threads)."),
    SubCheck("arith", evaluate, strategy=cases, examples=(20000, 400000), shards=(16, 16),
             floors={"carry": 2000, "len>3": 5000, "operand>4": 4000, "sub": 2000, "div": 2000, "len>4300": 100, "other_thread": 1000},
             rule=RULE),
    SubCheck("call_chains", evaluate_chain, strategy=chain_cases, examples=(3000, 40000), shards=(8, 16),
             floors={"older_result_reused": 1000}, rule=RULE),
    SubCheck("lifted_int_limit", evaluate_lifted_limit,
             enum=(lambda tier: 2 if tier == "quick" else 16, lambda i, tier: {"seed": 31 + i, "count": 400}),
             shards=(2, 16), exhaustive_space="fixed batches of 400 operations run in an interpreter started with "
                                              "-X int_max_str_digits=0", rule=RULE, timeout=400.0),
]

TECHNIQUE = "property-based testing (Hypothesis) against a Python-int reference, with schoolbook-state coverage accounting"
LEVEL_TEXT = ("Generated-input search: 20,000 (quick) / 400,000 (thorough) operations on decimal strings of up to "
              "300 / 1,500 digits, every result compared with exact integer arithmetic; the generator is biased to "
              "carry and borrow chains of every length and the evidence reports which (carry, digit, operand, "
              "position) states of the digit-serial algorithms were reached. Exploration, not proof: the functions "
              "are digit-serial, so reaching all local states at all position classes is the strongest argument "
              "this family can give."
              ' 320 / 3,200 concurrent schedules (2..4 threads, one-microsecond switch interval) must give exact results in every thread.')
LEVEL_NOTE = "Trusted: Python int arithmetic and str(); inputs restricted to canonical strings and one-digit operands."
