"""Shared types and helpers for the property modules."""
import contextlib
import hashlib
import io
import json
import os
import sys

REPO = os.environ.get("VERIF_REPO", "/repo")
VERIF = os.path.dirname(os.path.dirname(os.path.abspath(__file__)))


def import_dsw():
    """Import dsw from the repository's *current working tree* (nothing else has to be built: pure Python)."""
    if sys.path[0] != REPO:
        sys.path.insert(0, REPO)
    import dsw
    where = os.path.realpath(dsw.__file__)
    if not where.startswith(os.path.realpath(REPO) + os.sep):
        raise RuntimeError("dsw imported from %s, expected under %s" % (where, REPO))
    return dsw


class Outcome(object):
    __slots__ = ("ok", "nontrivial", "classes", "detail", "discard", "known")

    def __init__(self, ok=True, nontrivial=False, classes=(), detail="", discard=None, known=None):
        self.ok, self.nontrivial, self.classes = ok, nontrivial, tuple(classes)
        self.detail, self.discard, self.known = detail, discard, known


def bad(detail, classes=(), nontrivial=True, known=None):
    return Outcome(ok=False, nontrivial=nontrivial, classes=classes, detail=detail, known=known)


def discard(reason, classes=()):
    return Outcome(ok=True, nontrivial=False, classes=tuple(classes) + ("discard:" + reason,), discard=reason)


class SubCheck(object):
    """One executable statement of (part of) a property.

    strategy(tier) -> Hypothesis strategy of JSON-able case dicts, or enum = (size(tier), case_at(i, tier)).
    evaluate(case) -> Outcome.  examples / shards are (quick, thorough) pairs.
    floors: {class label: minimal number of cases in the quick tier} - a generator-health requirement (exit 2).
    """

    def __init__(self, name, evaluate, strategy=None, enum=None, examples=(200, 2000), shards=(4, 16),
                 floors=None, rule="", exhaustive_space=None, timeout=60.0, fuzz=None):
        self.name, self.evaluate, self.strategy, self.enum = name, evaluate, strategy, enum
        self.examples, self.shards, self.floors, self.rule = examples, shards, floors or {}, rule
        self.exhaustive_space, self.timeout, self.fuzz = exhaustive_space, timeout, fuzz

    def tier_index(self, tier):
        return 0 if tier == "quick" else 1


class Raised(object):
    """An exception raised by the library, captured as a value."""

    def __init__(self, exc):
        self.type, self.name, self.message = type(exc), type(exc).__name__, str(exc)[:200]

    def __repr__(self):
        return "Raised(%s: %s)" % (self.name, self.message)


def lib_call(function, *args, **kwargs):
    """Call library code; library exceptions become a Raised value (BaseExceptions of the harness pass through)."""
    try:
        return function(*args, **kwargs)
    except Exception as exc:  # noqa - the library's contract is judged by the caller
        return Raised(exc)


@contextlib.contextmanager
def captured_stdout():
    old, buf = sys.stdout, io.StringIO()
    sys.stdout = buf
    try:
        yield buf
    finally:
        sys.stdout = old


def canonical(case):
    return json.dumps(case, sort_keys=True, separators=(",", ":"))


def digest(case):
    return hashlib.blake2b(canonical(case).encode(), digest_size=8).digest()


def mix32(*values):
    """Fixed arithmetic mix of integers / strings into a 32-bit seed (never Python's hash)."""
    h = hashlib.blake2b(digest_size=4)
    for v in values:
        h.update(str(v).encode() + b"\x00")
    return int.from_bytes(h.digest(), "big")
