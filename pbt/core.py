"""Shared types and helpers for the property modules."""
import contextlib
import hashlib
import io
import json
import os
import sys

REPO = os.environ.get("VERIF_REPO", "/repo")
VERIF = os.path.dirname(os.path.dirname(os.path.abspath(__file__)))


_ENVIRONMENT_SET = []


def import_dsw():
    """Import dsw from the repository's *current working tree* (nothing else has to be built: pure Python)."""
    if sys.path[0] != REPO:
        sys.path.insert(0, REPO)
    if not _ENVIRONMENT_SET:
        # a legal but unusual environment: numpy abbreviates every array of more than 8 entries when it is printed,
        # so library code that keys or parses anything on str(array) / repr(object holding arrays) is exposed
        import numpy
        numpy.set_printoptions(threshold=8, edgeitems=1, linewidth=60, precision=3)
        _ENVIRONMENT_SET.append(True)
    import dsw
    where = os.path.realpath(dsw.__file__)
    if not where.startswith(os.path.realpath(REPO) + os.sep):
        raise RuntimeError("dsw imported from %s, expected under %s" % (where, REPO))
    return dsw


class Outcome(object):
    __slots__ = ("ok", "nontrivial", "classes", "detail", "discard", "known")

    def __init__(self, ok=True, nontrivial=False, classes=(), detail="", discard=None, known=None):
        self.ok, self.nontrivial, self.classes = ok, nontrivial, tuple(classes)
        self.detail, self.discard, self.known = detail, discard, known


def bad(detail, classes=(), nontrivial=True, known=None):
    return Outcome(ok=False, nontrivial=nontrivial, classes=classes, detail=detail, known=known)


def discard(reason, classes=()):
    return Outcome(ok=True, nontrivial=False, classes=tuple(classes) + ("discard:" + reason,), discard=reason)


class SubCheck(object):
    """One executable statement of (part of) a property.

    strategy(tier) -> Hypothesis strategy of JSON-able case dicts, or enum = (size(tier), case_at(i, tier)).
    evaluate(case) -> Outcome.  examples / shards are (quick, thorough) pairs.
    floors: {class label: minimal number of cases in the quick tier} - a generator-health requirement (exit 2).
    """

    def __init__(self, name, evaluate, strategy=None, enum=None, examples=(200, 2000), shards=(4, 16),
                 floors=None, rule="", exhaustive_space=None, timeout=60.0, fuzz=None):
        self.name, self.evaluate, self.strategy, self.enum = name, evaluate, strategy, enum
        self.examples, self.shards, self.floors, self.rule = examples, shards, floors or {}, rule
        self.exhaustive_space, self.timeout, self.fuzz = exhaustive_space, timeout, fuzz

    def tier_index(self, tier):
        return 0 if tier == "quick" else 1


class Raised(object):
    """An exception raised by the library, captured as a value."""

    def __init__(self, exc):
        self.type, self.name, self.message = type(exc), type(exc).__name__, str(exc)[:200]

    def __repr__(self):
        return "Raised(%s: %s)" % (self.name, self.message)


class ArgumentChanged(Exception):
    """Reported (as a Raised value) when a call - returning or raising - left one of its array / dict / list arguments
    different from what it was given: content, shape, dtype, strides or the writeable flag (arc removal, which is
    documented to work in place, excepted)."""


def _argument_state(arguments):
    import copy
    import numpy
    state = []
    for item in arguments:
        if isinstance(item, numpy.ndarray):
            state.append((item, item.shape, item.dtype, item.strides, bool(item.flags.writeable),
                          numpy.array(item, copy=True) if item.size <= 4096 else None))
        elif isinstance(item, (dict, list)) and len(item) <= 256:
            try:
                state.append((item, copy.deepcopy(item)))
            except Exception:  # noqa - not copyable: not watched
                pass
    return state


def _argument_change(state):
    import numpy
    for entry in state:
        item = entry[0]
        if isinstance(item, numpy.ndarray):
            _, shape, dtype, strides, writeable, content = entry
            if (item.shape, item.dtype, item.strides, bool(item.flags.writeable)) != (shape, dtype, strides, writeable):
                return "an array argument came back with shape/dtype/strides/writeable %r, it was passed with %r" % (
                    (item.shape, str(item.dtype), item.strides, bool(item.flags.writeable)),
                    (shape, str(dtype), strides, writeable))
            if content is not None and not numpy.array_equal(numpy.asarray(item), content):
                return "the content of an array argument of shape %r was changed by the call" % (shape,)
        elif not _equal(item, entry[1]):
            return "a %s argument was changed by the call (now %s, was %s)" % (
                type(item).__name__, str(item)[:60], str(entry[1])[:60])
    return None


class GlobalStateChanged(Exception):
    """Reported (as a Raised value) when a library call left interpreter-wide settings different from what it found:
    numpy's error handling and print options, the warnings filter list, the decimal context, the recursion limit, the
    thread switch interval, the working directory, or - for functions that are not documented as randomised - the
    state of numpy's or the standard library's global random generators."""


_RANDOMISED = {"create_random_shuffles", "approximate_capacity", "remove_nasty_arc"}


def _global_state(function):
    import decimal
    import random
    import warnings
    import numpy
    state = {"numpy.geterr": repr(sorted(numpy.geterr().items())),
             "numpy print options": repr(sorted((k, repr(v)) for k, v in numpy.get_printoptions().items())),
             "warnings.filters": len(warnings.filters),
             "decimal context": repr(decimal.getcontext()),
             "recursion limit": sys.getrecursionlimit(),
             "switch interval": sys.getswitchinterval(),
             "working directory": os.getcwd()}
    if getattr(function, "__name__", "") not in _RANDOMISED:
        kind, keys, position = numpy.random.get_state()[:3]
        state["numpy.random state"] = (kind, position, int(keys[0]), int(keys[-1]), int(keys.sum()))
        state["random state"] = hash(random.getstate())
    return state


class ResultNotReproducible(Exception):
    """Reported (as a Raised value) when the same call on the same arguments gives a different result after the
    caller overwrote its own copy of the first result - i.e. the library handed out shared or cached state."""


def _equal(a, b):
    import numpy
    if isinstance(a, numpy.ndarray) or isinstance(b, numpy.ndarray):
        return isinstance(a, numpy.ndarray) and isinstance(b, numpy.ndarray) and a.shape == b.shape \
            and a.dtype == b.dtype and bool(numpy.array_equal(a, b))
    if isinstance(a, dict) and isinstance(b, dict):
        return list(a.keys()) == list(b.keys()) and all(_equal(a[k], b[k]) for k in a)
    if isinstance(a, (list, tuple)) and isinstance(b, (list, tuple)):
        return type(a) is type(b) and len(a) == len(b) and all(_equal(x, y) for x, y in zip(a, b))
    if isinstance(a, float) and isinstance(b, float):
        return a == b or (a != a and b != b)
    return type(a) is type(b) and a == b


def _arrays_in(values):
    import numpy
    found, stack = [], list(values)
    while stack:
        item = stack.pop()
        if isinstance(item, numpy.ndarray):
            found.append(item)
        elif isinstance(item, dict):
            stack.extend(item.values())
        elif isinstance(item, (list, tuple)):
            stack.extend(item)
    return found


def scribble(result, arguments):
    """Overwrite every mutable part of a result the caller owns (never objects that alias an argument)."""
    import numpy
    shared = _arrays_in(arguments)
    containers = [a for a in arguments if isinstance(a, (dict, list))]
    stack = [result]
    while stack:
        item = stack.pop()
        if isinstance(item, numpy.ndarray):
            if item.flags.writeable and item.size and not any(numpy.shares_memory(item, s) for s in shared):
                item[...] = 3 if item.dtype.kind in "iuf" else (not bool(item.flat[0]))
        elif isinstance(item, dict):
            if not any(item is c for c in containers):
                stack.extend(item.values())
                item.clear()
        elif isinstance(item, list):
            if not any(item is c for c in containers):
                stack.extend(item)
                del item[:]
        elif isinstance(item, tuple):
            stack.extend(item)


_HELD = {}  # function name -> (live result, private copy): the latest probed result of every function, across cases


def _check_held():
    """A result handed out earlier must not change because of later library calls (shared output buffers)."""
    for description, (live, kept) in list(_HELD.items()):
        if not _equal(live, kept):
            _HELD.clear()
            return ("a result returned earlier by %s changed after later library calls (the library reuses or shares "
                    "its output objects): was %s, now %s" % (description, str(kept)[:60], str(live)[:60]))
    return None


def _default_stack(function, args, kwargs):
    """Call with the interpreter's DEFAULT amount of stack: Hypothesis raises the recursion limit while a test runs,
    which would hide unbounded recursion that a plain script (limit 1,000, called from a shallow stack) hits."""
    depth, frame = 0, sys._getframe()
    while frame is not None:
        depth, frame = depth + 1, frame.f_back
    old = sys.getrecursionlimit()
    sys.setrecursionlimit(depth + 950)
    try:
        return function(*args, **kwargs)
    finally:
        sys.setrecursionlimit(old)


CASE_IN_THREAD = False  # set per case by the runner (a pure function of the case, so replays behave alike)


def _in_fresh_thread(function, args, kwargs, tiny_print=False):
    """Run the call in a newly started thread (fresh thread-local state and a fresh contextvars context - e.g. the
    default decimal context, default numpy print options) and hand its result or exception to the caller: the
    library is documented as a set of plain functions, so which thread calls them must not matter."""
    if os.environ.get("VERIF_NO_THREAD"):
        return _default_stack(function, args, kwargs)
    import threading
    box = {}

    def run():
        try:
            if tiny_print:
                import numpy
                numpy.set_printoptions(threshold=8, edgeitems=1, linewidth=60, precision=3)
            box["value"] = _default_stack(function, args, kwargs)
        except BaseException as exc:  # noqa - re-raised in the calling thread below
            box["error"] = exc

    worker = threading.Thread(target=run, daemon=True)
    worker.start()
    worker.join()
    if "error" in box:
        raise box["error"]
    return box["value"]


def lib_call(function, *args, **kwargs):
    """Call library code with stdout captured; library exceptions become a Raised value (BaseExceptions of the
    harness pass through).  Unless _twice=False, a returning call is repeated on the same argument objects after the
    caller-owned first result has been overwritten; a differing second result is reported as
    Raised(ResultNotReproducible) - every call must give the right answer, not only the first one."""
    import copy
    twice = kwargs.pop("_twice", True)
    hold = kwargs.pop("_hold", True)
    threaded = kwargs.pop("_thread", True)  # False: tight loops of thousands of tiny calls per case
    sink = io.StringIO()
    old = sys.stdout
    sys.stdout = sink
    watched = [] if getattr(function, "__name__", "") == "remove_nasty_arc" else \
        _argument_state(list(args) + list(kwargs.values()))
    settings_before = _global_state(function)
    try:
        try:
            if CASE_IN_THREAD and threaded and sys.gettrace() is None:
                # for every other case (by digest) all library calls run in freshly started threads: results must
                # not depend on thread-local or context-local state set up elsewhere (e.g. at import time)
                first = _in_fresh_thread(function, args, kwargs, tiny_print=True)
            else:
                first = _default_stack(function, args, kwargs)
        except Exception as exc:  # noqa - the library's contract is judged by the caller
            changed = _argument_change(watched)
            if changed:
                return Raised(ArgumentChanged("%s (the call raised %s: %s)" % (changed, type(exc).__name__, exc)))
            return Raised(exc)
        changed = _argument_change(watched)
        if changed:
            return Raised(ArgumentChanged(changed))
        settings_after = _global_state(function)
        if settings_after != settings_before:
            which = [k for k in settings_before if settings_before[k] != settings_after.get(k)]
            return Raised(GlobalStateChanged("the call changed interpreter-wide state: %s (now %s)" % (
                ", ".join(which), "; ".join(str(settings_after[k])[:80] for k in which))))
        import numpy
        if not twice or not isinstance(first, (numpy.ndarray, list, dict, tuple)):
            return first
        try:
            kept = copy.deepcopy(first)
        except Exception:  # noqa - not copyable: no probe
            return first
        arguments = list(args) + list(kwargs.values())
        scribble(first, arguments)
        import warnings
        try:
            with warnings.catch_warnings():
                warnings.simplefilter("error")  # the repeated call runs as under `python -W error`
                second = _in_fresh_thread(function, args, kwargs)
        except Exception as exc:  # noqa
            return Raised(ResultNotReproducible("second identical call (warnings escalated to errors) raised %s: %s"
                                                % (type(exc).__name__, exc)))
        if not _equal(kept, second):
            return Raised(ResultNotReproducible(
                "the same call on the same arguments returned a different result after the caller overwrote its "
                "copy of the first result (first %s, then %s)" % (str(kept)[:70], str(second)[:70])))
        changed = _check_held()
        if changed:
            return Raised(ResultNotReproducible(changed))
        shared = _arrays_in(arguments)
        aliases = any(numpy.shares_memory(part, arg) for part in _arrays_in([second]) for arg in shared) \
            or any(second is arg for arg in arguments)
        if hold and not aliases:
            _HELD[getattr(function, "__name__", "call")] = (second, kept)
        return second
    finally:
        sys.stdout = old


@contextlib.contextmanager
def captured_stdout():
    old, buf = sys.stdout, io.StringIO()
    sys.stdout = buf
    try:
        yield buf
    finally:
        sys.stdout = old


def canonical(case):
    return json.dumps(case, sort_keys=True, separators=(",", ":"))


def digest(case):
    return hashlib.blake2b(canonical(case).encode(), digest_size=8).digest()


def mix32(*values):
    """Fixed arithmetic mix of integers / strings into a 32-bit seed (never Python's hash)."""
    h = hashlib.blake2b(digest_size=4)
    for v in values:
        h.update(str(v).encode() + b"\x00")
    return int.from_bytes(h.digest(), "big")
