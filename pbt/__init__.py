"""Property-based testing and fuzzing machinery for the 20 DNASpiderWeb properties (see DESIGN.md)."""
