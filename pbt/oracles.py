"""Independent reference implementations (DESIGN 4.2).

Nothing here imports ``dsw``.  Graphs are ``rows``: a list of 4^k integers 0..15, bit j of rows[v] set iff the arc
from vertex v that appends nucleotide "ACGT"[j] exists.  Vertices are ints, k-mers are strings; the successor and
predecessor relations are computed by *string manipulation on k-mers*.
"""
from fractions import Fraction
from functools import lru_cache
from itertools import combinations

NUC = "ACGT"


class RefError(Exception):
    """The reference coder cannot proceed (dead end, out-degree 3 in fast mode, ...)."""


# ----------------------------------------------------------------------------------------------- k-mers and arcs

def kmer(v, k):
    out = []
    for _ in range(k):
        out.append(NUC[v % 4])
        v //= 4
    return "".join(reversed(out))


def index(s):
    v = 0
    for c in s:
        v = v * 4 + NUC.index(c)
    return v


def succ(v, k):
    s = kmer(v, k)
    return [index(s[1:] + c) for c in NUC]


def pred(v, k):
    s = kmer(v, k)
    return [index(c + s[:-1]) for c in NUC]


@lru_cache(maxsize=None)
def succ_table(k):
    return tuple(tuple(succ(v, k)) for v in range(4 ** k))


def live(rows, v):
    r = rows[v]
    return [j for j in range(4) if (r >> j) & 1]


def out_degree(rows, v):
    return bin(rows[v]).count("1")


def step(rows, k, v, c):
    """Next vertex when nucleotide c is read at v, or None when c is not an out-arc of v."""
    j = NUC.find(c) if len(c) == 1 else -1
    if j < 0 or not (rows[v] >> j) & 1:
        return None
    return succ_table(k)[v][j]


def walk_states(rows, k, start, s):
    """List of the states after each symbol for the longest walkable prefix of s."""
    states, v = [], start
    for c in s:
        v = step(rows, k, v, c)
        if v is None:
            break
        states.append(v)
    return states


def is_walk(rows, k, start, s):
    return len(walk_states(rows, k, start, s)) == len(s)


def reachable(rows, k, start):
    seen, todo = {start}, [start]
    table = succ_table(k)
    while todo:
        v = todo.pop()
        for j in live(rows, v):
            w = table[v][j]
            if w not in seen:
                seen.add(w)
                todo.append(w)
    return seen


def arcs(rows, k):
    table = succ_table(k)
    return {(v, table[v][j]) for v in range(len(rows)) for j in live(rows, v)}


def rows_from_mask(mask_set, k):
    """Vertex-induced sub-graph of the de Bruijn graph on mask_set."""
    table = succ_table(k)
    rows = [0] * (4 ** k)
    for v in mask_set:
        for j in range(4):
            if table[v][j] in mask_set:
                rows[v] |= 1 << j
    return rows


def well_formed_from(rows, k, start):
    """C01's graph domain: every vertex reachable from start has an arc and can reach a branching vertex."""
    reach = reachable(rows, k, start)
    table = succ_table(k)
    good = {v for v in reach if out_degree(rows, v) >= 2}
    changed = True
    while changed:
        changed = False
        for v in reach - good:
            if any(table[v][j] in good for j in live(rows, v)):
                good.add(v)
                changed = True
    return all(out_degree(rows, v) >= 1 for v in reach) and good == reach


def prune_to_well_formed(rows, k):
    """Largest arc subset in which every arc target has an arc and can reach a branching vertex (generator aid)."""
    rows = list(rows)
    table = succ_table(k)
    n = len(rows)
    while True:
        good = {v for v in range(n) if out_degree(rows, v) >= 2}
        changed = True
        while changed:
            changed = False
            for v in range(n):
                if v not in good and rows[v] and any(table[v][j] in good for j in live(rows, v)):
                    good.add(v)
                    changed = True
        removed = False
        for v in range(n):
            if rows[v] and v not in good:
                rows[v] = 0
                removed = True
            for j in live(rows, v):
                if table[v][j] not in good:
                    rows[v] &= ~(1 << j)
                    removed = True
        if not removed:
            return rows


# ----------------------------------------------------------------------------------------------- generation oracle

def largest_closed_subgraph(mask_set, k, t):
    """Greatest vertex set S of mask_set with >= t successors in S for every vertex, and (t == 1) every vertex able
    to reach, inside S, a vertex with >= 2 successors in S."""
    table = succ_table(k)
    s = set(mask_set)
    rounds, pruned_by_reach = 0, 0
    while True:
        s2 = {v for v in s if sum(1 for w in table[v] if w in s) >= t}
        if s2 != s:
            rounds += 1
            s = s2
            continue
        if t == 1:
            branching = {v for v in s if sum(1 for w in table[v] if w in s) >= 2}
            reach, changed = set(branching), True
            while changed:
                changed = False
                for v in s - reach:
                    if any(w in reach for w in table[v] if w in s):
                        reach.add(v)
                        changed = True
            if reach != s:
                pruned_by_reach += len(s) - len(reach)
                s = reach
                continue
        return s, rounds, pruned_by_reach


def satisfies_closure(s, k, t):
    table = succ_table(k)
    for v in s:
        if sum(1 for w in table[v] if w in s) < t:
            return False
    if t == 1:
        branching = {v for v in s if sum(1 for w in table[v] if w in s) >= 2}
        reach, changed = set(branching), True
        while changed:
            changed = False
            for v in s - reach:
                if any(w in reach for w in table[v] if w in s):
                    reach.add(v)
                    changed = True
        if reach != s:
            return False
    return True


def definitional_closed_subgraph(mask_set, k, t):
    """Union of *all* subsets of mask_set that satisfy the stated closure (exponential; small masks only)."""
    members = sorted(mask_set)
    best = set()
    for size in range(len(members), 0, -1):
        for sub in combinations(members, size):
            ss = set(sub)
            if ss <= best:
                continue
            if satisfies_closure(ss, k, t):
                best |= ss
    return best


# ----------------------------------------------------------------------------------------------- reference coder

def bits_to_int(bits):
    v = 0
    for b in bits:
        v = v * 2 + int(b)
    return v


def int_to_bits(value, width):
    return [(value >> (width - 1 - i)) & 1 for i in range(width)]


def digit_to_arc(rows, v, d, table=None):
    """Column j of the live arc selected by digit d at vertex v."""
    lv = live(rows, v)
    if table is None:
        return lv[d]
    order = sorted(lv, key=lambda j: table[v][j])  # table rows are permutations: no ties
    return order[d]


def arc_to_digit(rows, v, j, table=None):
    lv = live(rows, v)
    if table is None:
        return lv.index(j)
    order = sorted(lv, key=lambda jj: table[v][jj])
    return order.index(j)


def ref_encode(bits, rows, k, start, table=None, fast=False, max_steps=None):
    """Return (strand, trace) with trace = [(vertex, out_degree, digit or None)] per step."""
    st = succ_table(k)
    v, strand, trace = start, [], []
    length = len(bits)
    if max_steps is None:
        max_steps = (length + 1) * (len(rows) + 1) + 8
    if not fast:
        value = bits_to_int(bits)
        while value != 0:
            r = out_degree(rows, v)
            if r == 0:
                raise RefError("dead end at %d" % v)
            if r >= 2:
                value, d = divmod(value, r)
                j = digit_to_arc(rows, v, d, table)
            else:
                d, j = None, live(rows, v)[0]
            trace.append((v, r, d))
            strand.append(NUC[j])
            v = st[v][j]
            if len(strand) > max_steps:
                raise RefError("no termination")
    else:
        loc = 0
        while loc < length:
            r = out_degree(rows, v)
            if r == 0:
                raise RefError("dead end at %d" % v)
            if r == 3:
                raise RefError("out-degree 3 in fast mode at %d" % v)
            if r == 4:
                d = 2 * int(bits[loc]) + (int(bits[loc + 1]) if loc + 1 < length else 0)
                loc += 2
                j = digit_to_arc(rows, v, d, table)
            elif r == 2:
                d = int(bits[loc])
                loc += 1
                j = digit_to_arc(rows, v, d, table)
            else:
                d, j = None, live(rows, v)[0]
            trace.append((v, r, d))
            strand.append(NUC[j])
            v = st[v][j]
            if len(strand) > max_steps:
                raise RefError("no termination")
    return "".join(strand), trace


def ref_digits(strand, rows, k, start, table=None):
    """Digits [(radix, digit)] of the informative steps of a walk, or None when strand is not a walk."""
    st = succ_table(k)
    v, digits = start, []
    for c in strand:
        j = NUC.find(c) if len(c) == 1 else -1
        if j < 0 or not (rows[v] >> j) & 1:
            return None
        r = out_degree(rows, v)
        if r >= 2:
            digits.append((r, arc_to_digit(rows, v, j, table)))
        v = st[v][j]
    return digits


def digits_value(digits):
    value = 0
    for r, d in reversed(digits):
        value = value * r + d
    return value


def fast_bits(digits):
    """Bits carried by a digit sequence in fast mode (None when a radix 3 occurs)."""
    out = []
    for r, d in digits:
        if r == 4:
            out += [d // 2, d % 2]
        elif r == 2:
            out.append(d)
        else:
            return None
    return out


# ----------------------------------------------------------------------------------------------- VT check

def ref_vt(strand, n):
    vals = [NUC.index(c) for c in strand]
    flag = sum(vals) % 4
    asc = sum(i for i in range(len(vals) - 1) if vals[i] < vals[i + 1])
    value = asc % (4 ** (n - 1))
    digits = []
    for _ in range(n - 1):
        digits.append(NUC[value % 4])
        value //= 4
    return NUC[flag] + "".join(reversed(digits))


# ----------------------------------------------------------------------------------------------- local filter

def revcomp(s):
    return "".join({"A": "T", "C": "G", "G": "C", "T": "A"}[c] for c in reversed(s))


def max_run(s):
    best, cur, last = 0, 0, None
    for c in s:
        cur = cur + 1 if c == last else 1
        last = c
        best = max(best, cur)
    return best


def _cmp_upper(count, bound_text, k, complement=False):
    """Is ``count <= bound * k`` (or ``(1 - bound) * k``)?  True / False / None (float-boundary ambiguous)."""
    dec = Fraction(bound_text)
    exact = (1 - dec if complement else dec) * k
    if count != exact:
        return count < exact
    fl = float(bound_text)
    fl_value = ((1 - fl) if complement else fl) * k
    if Fraction(fl_value) == exact:
        return True
    return None


def _cmp_lower(count, bound_text, k):
    """Is ``count >= bound * k``?"""
    exact = Fraction(bound_text) * k
    if count != exact:
        return count > exact
    if Fraction(float(bound_text) * k) == exact:
        return True
    return None


def window_decidable(cfg):
    k = cfg["k"]
    if cfg.get("run") is not None and not cfg["run"] < k:
        return False
    if cfg.get("motifs") is not None and any(len(m) > k for m in cfg["motifs"]):
        return False
    return True


def ref_local_filter(cfg, s, only_last=False):
    """Documented predicate of the local filter: True / False / None (hinges on a float-boundary comparison).

    cfg = {"k": int, "run": int|None, "gc": [lo_text, hi_text]|None, "motifs": [str]|None}
    """
    k = cfg["k"]
    if only_last:
        s = s[-k:]
    if any(c not in NUC or len(c) != 1 for c in s):
        return False
    if cfg.get("run") is not None and max_run(s) > cfg["run"]:
        return False
    if cfg.get("motifs") is not None:
        for m in cfg["motifs"]:
            if m in s or revcomp(m) in s:
                return False
    ambiguous = False
    if cfg.get("gc") is not None:
        lo, hi = cfg["gc"]
        if len(s) >= k:
            for i in range(len(s) - k + 1):
                w = s[i: i + k]
                gc = w.count("C") + w.count("G")
                for verdict in (_cmp_upper(gc, hi, k), _cmp_lower(gc, lo, k)):
                    if verdict is False:
                        return False
                    if verdict is None:
                        ambiguous = True
        else:
            gc = s.count("C") + s.count("G")
            at = s.count("A") + s.count("T")
            for verdict in (_cmp_upper(gc, hi, k), _cmp_upper(at, lo, k, complement=True)):
                if verdict is False:
                    return False
                if verdict is None:
                    ambiguous = True
    return None if ambiguous else True


# ----------------------------------------------------------------------------------------------- spectral radius

def sccs(rows, k):
    """Strongly connected components (iterative Tarjan) of the vertices that have arcs or are arc targets."""
    table = succ_table(k)
    n = len(rows)
    index_of, low, on_stack, stack, comps = {}, {}, set(), [], []
    counter = [0]
    for root in range(n):
        if root in index_of or not rows[root]:
            continue
        work = [(root, iter([table[root][j] for j in live(rows, root)]))]
        index_of[root] = low[root] = counter[0]
        counter[0] += 1
        stack.append(root)
        on_stack.add(root)
        while work:
            v, it = work[-1]
            advanced = False
            for w in it:
                if w not in index_of:
                    index_of[w] = low[w] = counter[0]
                    counter[0] += 1
                    stack.append(w)
                    on_stack.add(w)
                    work.append((w, iter([table[w][j] for j in live(rows, w)])))
                    advanced = True
                    break
                elif w in on_stack:
                    low[v] = min(low[v], index_of[w])
            if advanced:
                continue
            work.pop()
            if work:
                low[work[-1][0]] = min(low[work[-1][0]], low[v])
            if low[v] == index_of[v]:
                comp = []
                while True:
                    w = stack.pop()
                    on_stack.discard(w)
                    comp.append(w)
                    if w == v:
                        break
                comps.append(sorted(comp))
    return comps


def cyclic_components(rows, k):
    table = succ_table(k)
    out = []
    for comp in sccs(rows, k):
        cs = set(comp)
        if len(comp) > 1 or any(table[comp[0]][j] == comp[0] for j in live(rows, comp[0])):
            out.append((comp, cs))
    return out


def component_period(rows, k, comp, cs):
    """gcd of the cycle lengths of a strongly connected component (BFS levels)."""
    from math import gcd
    table = succ_table(k)
    level = {comp[0]: 0}
    todo = [comp[0]]
    g = 0
    while todo:
        nxt = []
        for v in todo:
            for j in live(rows, v):
                w = table[v][j]
                if w not in cs:
                    continue
                if w not in level:
                    level[w] = level[v] + 1
                    nxt.append(w)
                else:
                    g = gcd(g, level[v] + 1 - level[w])
        todo = nxt
    return g


def component_matrix(rows, k, comp, cs):
    import numpy
    table = succ_table(k)
    pos = {v: i for i, v in enumerate(comp)}
    a = numpy.zeros((len(comp), len(comp)))
    for v in comp:
        for j in live(rows, v):
            w = table[v][j]
            if w in cs:
                a[pos[v], pos[w]] += 1.0
    return a


def certified_radius(a, tol=1e-11, max_iter=200000):
    """Collatz-Wielandt bounds lo <= rho(A) <= hi for an irreducible non-negative matrix A, via B = A + I."""
    import numpy
    b = a + numpy.eye(len(a))
    x = numpy.ones(len(a))
    lo, hi = 0.0, float("inf")
    for _ in range(max_iter):
        y = b @ x
        ratios = y / x
        lo, hi = max(lo, float(ratios.min())), min(hi, float(ratios.max()))
        if hi - lo < tol:
            break
        x = y / y.max()
    return lo - 1.0, hi - 1.0


# ----------------------------------------------------------------------------------------------- big decimals
# CPython refuses int(str) / str(int) beyond 4300 digits; the reference converts in chunks so that it never relies
# on (and never changes) the interpreter-wide limit that the code under test also runs under.

_CHUNK = 2000


def dec_to_int(text):
    value = 0
    for i in range(0, len(text), _CHUNK):
        part = text[i: i + _CHUNK]
        value = value * (10 ** len(part)) + int(part)
    return value


def int_to_dec(value):
    if value == 0:
        return "0"
    parts = []
    base = 10 ** _CHUNK
    while value:
        value, rem = divmod(value, base)
        parts.append(rem)
    out = [str(parts[-1])]
    for rem in reversed(parts[:-1]):
        out.append(str(rem).zfill(_CHUNK))
    return "".join(out)
