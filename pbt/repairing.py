"""Helpers shared by the repair properties (C08, C09, C10)."""
import sys

from pbt import gens
from pbt.budget import LookupBudgetExceeded, counted
from pbt.core import REPO, Raised, import_dsw, lib_call


class StepBudgetExceeded(BaseException):
    pass


def lookup_budget(n, k):
    return 50 * (n + 1) * (n + 1) * (k + 1) + 10000


def run_repair(rows, k, start, text, check=None, has_indel=True, heap_size=1e9, budget=None, line_budget=None,
               layout=None, np_start=False, np_args=False):
    """repair_dna on a counting proxy.  Returns (result | Raised | "BUDGET" | "STEPS", look-ups, lines)."""
    dsw = import_dsw()
    acc, counter = counted(gens.accessor_of({"k": k, "rows": rows}, layout),
                           lookup_budget(len(text), k) if budget is None else budget)
    lines = [0]
    tracer = None
    if line_budget is not None:
        prefix = REPO + "/dsw/"

        def local(frame, event, arg):
            if event == "line":
                lines[0] += 1
                if lines[0] > line_budget:
                    raise StepBudgetExceeded("more than %d executed lines" % line_budget)
            return local

        def tracer(frame, event, arg):
            if event == "call" and frame.f_code.co_filename.startswith(prefix):
                return local
            return None
    old = sys.gettrace()
    try:
        if tracer is not None:
            sys.settrace(tracer)
        if np_start:
            import numpy
            start = numpy.int64(start)
        if np_args:  # the strand, the check and the observed length as numpy scalars (str / int subclasses)
            import numpy
            text = numpy.str_(text)
            k = numpy.int64(k)
            if check is not None:
                check = numpy.str_(check)
        result = lib_call(dsw.repair_dna, dna_sequence=text, accessor=acc, start_index=start, observed_length=k,
                          vt_check=check, has_indel=has_indel, heap_size=heap_size)
    except LookupBudgetExceeded:
        result = "BUDGET"
    except StepBudgetExceeded:
        result = "STEPS"
    finally:
        sys.settrace(old)
    return result, counter.count, lines[0]


def well_formed_result(result):
    """(candidates, statistics) with candidates a list of str and statistics a tuple of 4."""
    if not (isinstance(result, tuple) and len(result) == 2):
        return False
    candidates, statistics = result
    return isinstance(candidates, list) and all(isinstance(c, str) for c in candidates) \
        and isinstance(statistics, tuple) and len(statistics) == 4
