"""Helpers shared by the coding properties (C01, C02, C04, C05, C06, C18): case strategy and library calls."""
from hypothesis import strategies as st

from pbt import gens, oracles as o
from pbt.budget import LookupBudgetExceeded, counted
from pbt.core import Raised, import_dsw, lib_call


def tier_bounds(tier):
    return {"kmax": 3, "max_len": 64} if tier == "quick" else {"kmax": 5, "max_len": 1200}


@st.composite
def coding_cases(draw, tier, fast=None, vt=None, message=None, force_table=False, kmax=None, max_len=None):
    bounds = tier_bounds(tier)
    kmax = kmax or bounds["kmax"]
    max_len = max_len or bounds["max_len"]
    is_fast = draw(st.booleans()) if fast is None else fast
    weights = {1: 2, 2: 4, 3: 4, 4: 2, 5: 1}
    graph = draw(gens.coding_graphs(1, kmax, fast=is_fast, weights=weights))
    if draw(st.sampled_from([False] * 24 + [True])):
        # the observed lengths used in practice (1,024..65,536 vertices, indices beyond 2^15), mixed out-degrees incl.
        # single-arc vertices; pruned to a well-formed graph by the oracle
        import random
        k = draw(st.sampled_from([5, 6, 7, 8]))
        big = random.Random(draw(st.integers(0, 2 ** 32 - 1)))
        palette = [15, 15, 5, 10, 3, 12, 6, 9, 1, 2, 4, 8] if is_fast else [15, 15, 7, 11, 13, 14, 5, 10, 3, 12, 1, 2, 4, 8]
        rows = o.prune_to_well_formed([big.choice(palette) for _ in range(4 ** k)], k)
        starts = [v for v, r in enumerate(rows) if r]
        if starts and (not is_fast or all(bin(r).count("1") != 3 for r in rows)):
            graph = {"k": k, "rows": rows, "start": starts[big.randrange(len(starts))], "large_k": True}
    if graph["k"] >= 4:
        max_len = min(max_len, 400)
    bits = draw(gens.messages(max_len)) if message is None else draw(message)
    table = draw(gens.tables(graph["k"], allow_none=not force_table))
    if vt is None:
        vt_length = 0
    elif vt == "any":
        vt_length = draw(st.one_of(st.integers(1, 4), st.integers(1, 12), st.sampled_from([31, 32, 33, 40, 64, 100])))
    else:
        vt_length = vt
    options = draw(st.sampled_from(["plain", "plain", "plain", "plain", "verbose", "path", "layout", "all", "dtype",
                                    "after_failure", "np_start", "table_layout"]))
    case = {"graph": graph, "bits": bits, "table": table, "fast": is_fast, "vt": vt_length}
    if options in ("verbose", "all"):
        case["verbose"] = True
    if options in ("path", "all"):
        case["need_path"] = True
    if options in ("layout", "all"):
        case["layout"] = draw(st.sampled_from(["F", "strided", "offset", "readonly"]))
    if options == "after_failure":
        case["after_failure"] = True
    if options == "table_layout" and table is not None:
        # only the table in another memory layout (the accessor stays C-contiguous)
        case["table_layout"] = draw(st.sampled_from(["F", "F", "strided", "offset", "readonly"]))
    if options in ("np_start", "all", "dtype"):
        # the start vertex as a numpy integer (what obtain_vertices / where() hand out), also of a narrow type
        case["np_start"] = draw(st.sampled_from(["int64", "int64", "int32", "uint8", "int16", "int8"]))
        case["np_lengths"] = True  # bit_length / vt_length as numpy integers, too
    if options in ("dtype", "layout") and table is not None:
        case["table_dtype"] = draw(st.sampled_from(["int64", "float64", "int8", "float32"]))
    if options == "dtype":
        case["layout"] = draw(st.sampled_from(["int32", "int16"]))
        case["msg_dtype"] = draw(st.sampled_from(["int8", "uint8", "int32", "list", "strided", "readonly"]))
    return case


def start_of(case):
    import numpy
    start = case["graph"]["start"]
    if not case.get("np_start"):
        return start
    kind = case["np_start"] if isinstance(case["np_start"], str) else "int64"
    if kind == "uint8" and start > 255:
        kind = "uint16" if start < 65536 else "int64"
    if kind == "int16" and start > 32767:
        kind = "int32"
    if kind == "int8" and start > 127:
        kind = "int16" if start <= 32767 else "int32"
    return getattr(numpy, kind)(start)


def budget_for(case):
    graph = case["graph"]
    vertices = sum(1 for r in graph["rows"] if r)
    return 64 * (len(case["bits"]) + 2) * (vertices + 2) + 4096


def run_encode(case, accessor=None, budget=None, **extra):
    """encode() on a counting proxy. Returns (result | Raised | "BUDGET", look-ups used)."""
    dsw = import_dsw()
    graph = case["graph"]
    acc, counter = counted(gens.accessor_of(graph, case.get("layout")) if accessor is None else accessor,
                           budget_for(case) if budget is None else budget)
    need_path = bool(case.get("need_path")) or bool(extra.pop("need_path", False))
    table = gens.table_of(case["table"])
    if table is not None and case.get("table_layout", case.get("layout")):
        table = gens.relayout(table, case.get("table_layout", case.get("layout")))
    if table is not None and case.get("table_dtype"):
        table = table.astype(case["table_dtype"])  # permutation rows held in another numeric type (e.g. loadtxt)
    if case.get("after_failure"):
        # a call that may fail part-way (fast mode stops at an out-degree-3 vertex) precedes the real one
        counter.budget += 4096
        try:
            lib_call(dsw.encode, _twice=False, binary_message=gens.bits_of("1011011101" + case["bits"][:40]),
                     accessor=acc, start_index=graph["start"], is_faster=not case["fast"], shuffles=table)
        except LookupBudgetExceeded:
            pass
        counter.count = 0
    try:
        result = lib_call(dsw.encode, binary_message=gens.bits_of(case["bits"], case.get("msg_dtype")), accessor=acc,
                          start_index=start_of(case), is_faster=case["fast"], vt_length=case["vt"],
                          shuffles=table, need_path=need_path, verbose=bool(case.get("verbose")), **extra)
    except LookupBudgetExceeded:
        return "BUDGET", counter.count
    if need_path and isinstance(result, tuple):
        # (strand, path) or (strand, check, path): drop the path, whose format no property defines
        import numpy
        if not isinstance(result[-1], numpy.ndarray):
            return Raised(TypeError("encode(need_path=True) returned %r as path" % (type(result[-1]),))), counter.count
        result = result[0] if len(result) == 2 else tuple(result[:-1])
    return result, counter.count


def run_decode(case, strand, check=None, bit_length=None, accessor=None, **extra):
    dsw = import_dsw()
    graph = case["graph"]
    acc, counter = counted(gens.accessor_of(graph, case.get("layout")) if accessor is None else accessor,
                           64 * (len(strand) + 2) + 4096)
    table = gens.table_of(case["table"])
    if table is not None and case.get("table_layout", case.get("layout")):
        table = gens.relayout(table, case.get("table_layout", case.get("layout")))
    if table is not None and case.get("table_dtype"):
        table = table.astype(case["table_dtype"])
    if bit_length is None:
        bit_length = len(case["bits"])
    if case.get("np_lengths"):
        import numpy
        bit_length = numpy.int64(bit_length)
    if case.get("np_str"):
        import numpy
        strand = numpy.str_(strand)
    try:
        return lib_call(dsw.decode, dna_sequence=strand,
                        bit_length=bit_length, accessor=acc,
                        start_index=start_of(case), is_faster=case["fast"], vt_check=check,
                        shuffles=table, verbose=bool(case.get("verbose")), **extra)
    except LookupBudgetExceeded:
        return "BUDGET"


def walk_classes(case, strand):
    """Class labels describing the walk a strand takes: out-degrees met, table use, mode."""
    graph = case["graph"]
    rows, k = graph["rows"], graph["k"]
    degrees, v = set(), graph["start"]
    table_at_23 = False
    for c in strand:
        d = o.out_degree(rows, v)
        degrees.add(d)
        if case["table"] is not None and d in (2, 3) and gens.PERMS[case["table"][v]] != [0, 1, 2, 3]:
            table_at_23 = True
        nxt = o.step(rows, k, v, c)
        if nxt is None:
            break
        v = nxt
    labels = ["k=%d" % k, "fast" if case["fast"] else "normal", "table" if case["table"] is not None else "no_table"] + (
        ["large_k"] if case["graph"].get("large_k") else [])
    labels += ["deg%d_met" % d for d in sorted(degrees)]
    if len(degrees) >= 2:
        labels.append("mixed_degrees")
    if table_at_23:
        labels.append("table_at_deg2or3")
    if case["vt"]:
        labels.append("vt")
    for option in ("verbose", "need_path", "layout", "msg_dtype", "after_failure", "np_start", "table_dtype",
                   "table_layout"):
        if case.get(option):
            labels.append("opt:" + option)
    if not strand:
        labels.append("empty_strand")
    if len(case["bits"]) % 2:
        labels.append("odd_length")
    return labels, degrees, table_at_23


def in_c01_domain(case):
    graph = case["graph"]
    if not o.well_formed_from(graph["rows"], graph["k"], graph["start"]):
        return False
    if case["fast"]:
        reach = o.reachable(graph["rows"], graph["k"], graph["start"])
        if any(o.out_degree(graph["rows"], v) == 3 for v in reach):
            return False
    return True


def is_array_of_bits(value, length):
    import numpy
    return isinstance(value, numpy.ndarray) and value.shape == (length,) and value.dtype.kind in "iu" \
        and all(int(x) in (0, 1) for x in value)
