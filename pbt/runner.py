"""Runner: tiers, seeds, sharding over 16 processes, evidence, VIOLATION / KNOWN-FINDING lines, exit codes.

usage: python -m pbt.runner <ID> <quick|thorough> [--replay FILE]

exit 0: the property held on everything explored; 1: at least one VIOLATION line was printed;
2: harness error / inconclusive (import failure, generator floor missed, watchdog, internal exception).
"""
import glob
import importlib
import json
import multiprocessing
import os
import sys
import time
import traceback
from collections import Counter

from pbt import core, findings
from pbt.budget import HarnessTimeout, watchdog

CORES = 16
MAX_SAMPLE_CHARS = 1500


class Violation(Exception):
    pass


def load(prop):
    return importlib.import_module("pbt.props." + prop.lower())


class ShardStats(object):
    def __init__(self):
        self.evaluations = 0
        self.classes = Counter()
        self.discards = Counter()
        self.known = Counter()
        self.nontrivial = set()
        self.samples = []
        self.violations = []
        self.errors = []
        self.tags = set()

    def record(self, case, out):
        self.evaluations += 1
        for label in out.classes:
            if label.startswith("@"):
                self.tags.add(label)
            else:
                self.classes[label] += 1
        if out.discard:
            self.discards[out.discard] += 1
        if out.nontrivial and not out.discard:
            d = core.digest(case)
            if d not in self.nontrivial:
                self.nontrivial.add(d)
                if len(self.samples) < 12:
                    text = core.canonical(case)
                    if len(text) <= MAX_SAMPLE_CHARS:
                        self.samples.append(case)

    def as_dict(self):
        return {"evaluations": self.evaluations, "classes": dict(self.classes), "discards": dict(self.discards),
                "known": dict(self.known), "nontrivial": self.nontrivial, "samples": self.samples[:3],
                "violations": self.violations, "errors": self.errors, "tags": self.tags}


def evaluate_guarded(sc, case):
    core.CASE_IN_THREAD = bool(core.digest(case)[0] & 1)
    # the watchdog only has to end genuine hangs that bypass the look-up budget; it is generous (at least 5 minutes,
    # three times the sub-check's nominal value) so that a loaded machine never turns a slow case into exit 2
    with watchdog(max(300.0, 3.0 * sc.timeout)):
        return sc.evaluate(case)


def replay_path(prop, sub, case, tag=""):
    name = "%s-%s%s.json" % (sub, core.digest(case).hex(), tag)
    return os.path.join("replays", prop, name)


def write_replay(prop, sub, case, detail, shrunk, prelude=None):
    path = replay_path(prop, sub, case)
    full = os.path.join(core.VERIF, path)
    os.makedirs(os.path.dirname(full), exist_ok=True)
    record = {"property": prop, "subcheck": sub, "case": case, "detail": detail, "shrunk": shrunk}
    if prelude:
        # the failure needs the preceding case(s) of the same process (state carried by the library between calls)
        record["prelude"] = prelude
    with open(full, "w") as handle:
        json.dump(record, handle, sort_keys=True)
        handle.write("\n")
    return path


def is_suppressed(prop, out):
    return bool(out.known) and findings.is_listed(prop, out.known)


def run_hypothesis(prop, sc, tier, seed, examples, stats):
    import hypothesis
    from hypothesis import HealthCheck, Phase, Verbosity, given, settings
    from hypothesis.internal.conjecture import engine
    engine.MAX_SHRINKING_SECONDS = 30 if tier == "quick" else 120
    state = {"first": None, "last": None, "prev": [], "prelude": None}

    @hypothesis.seed(seed)
    @settings(max_examples=examples, database=None, deadline=None, derandomize=False, report_multiple_bugs=False,
              suppress_health_check=list(HealthCheck), phases=(Phase.generate, Phase.shrink),
              verbosity=Verbosity.quiet)
    @given(sc.strategy(tier))
    def test(case):
        previous = state["prev"] if state["first"] is not None else list(state["prev"])
        if state["first"] is None:
            state["prev"].append(case)
            if len(state["prev"]) > 128:
                del state["prev"][0]
        out = evaluate_guarded(sc, case)
        if state["first"] is None:
            stats.record(case, out)
        if not out.ok:
            if is_suppressed(prop, out):
                if state["first"] is None:
                    stats.known[out.known] += 1
                return
            state["last"] = (case, out.detail)
            if state["first"] is None:
                state["first"] = (case, out.detail)
                state["prelude"] = previous
                write_replay(prop, sc.name, case, out.detail, shrunk=False)
            raise Violation(out.detail)

    try:
        test()
    except Violation:
        pass
    except HarnessTimeout:
        raise
    except Exception as exc:
        if state["first"] is None:
            raise
        if "Flaky" not in type(exc).__name__:
            stats.errors.append("hypothesis reported %s after a violation was found: %s"
                                % (type(exc).__name__, str(exc)[:300]))
    if state["first"] is not None:
        chosen = None
        for case, detail in (state["last"], state["first"]):
            out = evaluate_guarded(sc, case)
            if not out.ok and not is_suppressed(prop, out):
                chosen = (case, out.detail, None)
                break
        if chosen is None and state["prelude"]:
            # not reproducible from one case: state carried between calls - replay the preceding cases first
            # (windows of the last 1, 2, 4, ... 128 cases; the shortest window that reproduces is stored)
            lengths = sorted({min(2 ** i, len(state["prelude"])) for i in range(8)})
            for start in [len(state["prelude"]) - n for n in lengths]:
                for earlier in state["prelude"][start:]:
                    evaluate_guarded(sc, earlier)
                out = evaluate_guarded(sc, state["first"][0])
                if not out.ok and not is_suppressed(prop, out):
                    chosen = (state["first"][0], out.detail, state["prelude"][start:])
                    break
        if chosen is None:
            stats.errors.append("violation of %s did not reproduce on re-evaluation (flaky oracle?): %s"
                                % (sc.name, state["first"][1]))
        else:
            path = write_replay(prop, sc.name, chosen[0], chosen[1], shrunk=chosen[0] is state["last"][0],
                                prelude=chosen[2])
            first_path = replay_path(prop, sc.name, state["first"][0])
            if first_path != path and os.path.exists(os.path.join(core.VERIF, first_path)):
                os.remove(os.path.join(core.VERIF, first_path))
            stats.violations.append({"subcheck": sc.name, "replay": path, "detail": chosen[1]})


def run_enum(prop, sc, tier, shard, nshards, stats):
    size, case_at = sc.enum
    total = size(tier)
    reported = 0
    for i in range(shard, total, nshards):
        case = case_at(i, tier)
        out = evaluate_guarded(sc, case)
        stats.record(case, out)
        if not out.ok:
            if is_suppressed(prop, out):
                stats.known[out.known] += 1
                continue
            if reported < 3:
                path = write_replay(prop, sc.name, case, out.detail, shrunk=False)
                stats.violations.append({"subcheck": sc.name, "replay": path, "detail": out.detail})
            reported += 1
    if reported > 3:
        stats.violations.append({"subcheck": sc.name, "replay": stats.violations[-1]["replay"],
                                 "detail": "... and %d more failing cases in this shard" % (reported - 3),
                                 "summary_only": True})


def run_fuzz(prop, sc, tier, shard, seed, stats):
    """Coverage-guided campaign (atheris/libFuzzer) in a subprocess with a fresh corpus directory."""
    import random
    import shutil
    import subprocess
    target_prop, runs_pair = sc.fuzz
    runs = runs_pair[sc.tier_index(tier)]
    work = os.path.join(core.VERIF, ".fuzz", "%s-%s-%d-%d" % (prop, sc.name, shard, os.getpid()))
    shutil.rmtree(work, ignore_errors=True)
    os.makedirs(os.path.join(work, "corpus"))
    if shard % 2:  # odd shards start from a small random valid corpus, even shards from the empty corpus
        rng = random.Random(seed)
        for i in range(48):
            with open(os.path.join(work, "corpus", "seed%02d" % i), "wb") as handle:
                handle.write(bytes(rng.randrange(256) for _ in range(rng.randrange(8, 96))))
    stats_path = os.path.join(work, "stats.json")
    env = dict(os.environ, PYTHONHASHSEED="0", PYTHONPATH=core.VERIF)
    # the atheris process grows by about 30 kB per execution, so a long campaign is run as consecutive processes of
    # at most 20,000 executions that share the corpus directory (libFuzzer reloads it)
    remaining, chunk = runs, 0
    try:
        while remaining > 0:
            now = min(remaining, 20000)
            remaining -= now
            chunk += 1
            if os.path.exists(stats_path):
                os.remove(stats_path)
            cmd = [sys.executable, "-m", "pbt.fuzz.target", target_prop, stats_path, str(now),
                   "-seed=%d" % ((seed + chunk) % (2 ** 31 - 1) + 1), "-max_len=256", "-rss_limit_mb=4096",
                   "-artifact_prefix=" + work + "/", os.path.join(work, "corpus")]
            done = subprocess.run(cmd, cwd=core.VERIF, env=env, capture_output=True, text=True,
                                  timeout=max(900, now // 20))
            data = json.load(open(stats_path)) if os.path.exists(stats_path) else None
            if data is None:
                stats.errors.append("fuzz target %s produced no statistics (exit %d): %s"
                                    % (target_prop, done.returncode, (done.stdout + done.stderr)[-400:]))
                return
            stats.evaluations += data["evaluations"]
            stats.classes.update(data["classes"])
            stats.classes["fuzz_execs"] += data["execs"]
            if "digests" in data:
                stats.nontrivial |= {bytes.fromhex(d) for d in data["digests"]}
            else:
                stats.nontrivial |= {("fuzz-%d-%d-%d" % (shard, chunk, i)).encode() for i in range(data["nontrivial"])}
            stats.samples += data["samples"]
            if data["violation"]:
                stats.violations.append({"subcheck": sc.name, "replay": data["violation"]["replay"],
                                         "detail": "[fuzz] " + data["violation"]["detail"]})
                return
            if done.returncode != 0:
                stats.errors.append("fuzz target %s exited %d without a recorded violation: %s"
                                    % (target_prop, done.returncode, (done.stdout + done.stderr)[-400:]))
                return
        stats.classes["fuzz_corpus:" + ("seeded" if shard % 2 else "empty")] += 1
    finally:
        shutil.rmtree(work, ignore_errors=True)


def run_task(task):
    prop, sub_idx, shard, nshards, tier, base_seed = task
    stats = ShardStats()
    started = time.time()
    try:
        core.import_dsw()
        sc = [c for c in load(prop).SUBCHECKS if not os.environ.get("VERIF_ONLY")
              or c.name == os.environ["VERIF_ONLY"]][sub_idx]
        if sc.fuzz is not None:
            run_fuzz(prop, sc, tier, shard, core.mix32(base_seed, prop, sc.name, shard), stats)
        elif sc.enum is not None:
            run_enum(prop, sc, tier, shard, nshards, stats)
        else:
            examples = sc.examples[sc.tier_index(tier)]
            per_shard = max(1, -(-examples // nshards))
            seed = core.mix32(base_seed, prop, sc.name, shard)
            run_hypothesis(prop, sc, tier, seed, per_shard, stats)
    except BaseException as exc:  # noqa - reported as harness error, never as a violation
        stats.errors.append("%s in sub-check %d shard %d: %s || %s"
                            % (type(exc).__name__, sub_idx, shard, str(exc)[:300],
                               " | ".join(traceback.format_exc().strip().splitlines()[-7:])[:900]))
    result = stats.as_dict()
    result.update({"sub_idx": sub_idx, "shard": shard, "wall_s": time.time() - started})
    return result


def run_replay(prop, path):
    core.import_dsw()
    module = load(prop)
    with open(path) as handle:
        data = json.load(handle)
    sub = {sc.name: sc for sc in module.SUBCHECKS}.get(data["subcheck"])
    if sub is None:
        print("HARNESS-ERROR unknown sub-check %r in %s" % (data["subcheck"], path))
        return 2
    for earlier in data.get("prelude", []):
        evaluate_guarded(sub, earlier)
    out = evaluate_guarded(sub, data["case"])
    if out.ok or is_suppressed(prop, out):
        print("replay %s: property holds (%s)" % (path, ",".join(out.classes)))
        return 0
    print("replay %s: %s" % (path, out.detail))
    print("VIOLATION property=%s replay=%s" % (prop, path))
    return 1


def main(argv):
    if len(argv) < 2 or argv[1] not in ("quick", "thorough"):
        print(__doc__)
        return 2
    prop, tier = argv[0].upper(), argv[1]
    os.chdir(core.VERIF)
    if "--replay" in argv:
        return run_replay(prop, argv[argv.index("--replay") + 1])
    base_seed = int(os.environ.get("VERIF_SEED", "1") or "1")
    started = time.time()
    try:
        dsw = core.import_dsw()
        module = load(prop)
    except BaseException as exc:  # noqa
        print("HARNESS-ERROR cannot import: %s" % exc)
        traceback.print_exc()
        return 2
    print("== %s %s seed=%d dsw=%s" % (prop, tier, base_seed, os.path.dirname(dsw.__file__)))
    subchecks = module.SUBCHECKS
    only = os.environ.get("VERIF_ONLY")  # development aid: run a single sub-check (never set by registered commands)
    if only:
        subchecks = [sc for sc in subchecks if sc.name == only] or subchecks
    violations, errors = [], []

    # 1. committed regression replays (seconds-long saved-input tier); they must pass on the repaired tree.
    only = os.environ.get("VERIF_ONLY")
    regress = sorted(glob.glob(os.path.join("replays", prop, "regress-*.json")))
    by_name = {sc.name: sc for sc in module.SUBCHECKS if not only or sc.name == only}
    regress_run = 0
    for path in regress:
        with open(path) as handle:
            data = json.load(handle)
        sc = by_name.get(data["subcheck"])
        if sc is None:
            if not only:
                errors.append("regression replay %s names unknown sub-check %s" % (path, data["subcheck"]))
            continue
        try:
            out = evaluate_guarded(sc, data["case"])
        except BaseException as exc:  # noqa
            errors.append("regression replay %s: %s: %s" % (path, type(exc).__name__, exc))
            continue
        regress_run += 1
        if not out.ok and not is_suppressed(prop, out):
            violations.append({"subcheck": sc.name, "replay": path, "detail": out.detail})

    # 2. generated search
    tasks = []
    for sub_idx, sc in enumerate(subchecks):
        nshards = sc.shards[sc.tier_index(tier)]
        for shard in range(nshards):
            tasks.append((prop, sub_idx, shard, nshards, tier, base_seed))
    context = multiprocessing.get_context("fork")
    # every (sub-check, shard) task gets a freshly forked worker: library state carried between calls stays inside
    # one task, where the prelude of a replay file can reproduce it
    with context.Pool(processes=min(CORES, len(tasks)), maxtasksperchild=1) as pool:
        results = list(pool.imap_unordered(run_task, tasks, chunksize=1))

    merged = {}
    for res in sorted(results, key=lambda r: (r["sub_idx"], r["shard"])):
        m = merged.setdefault(res["sub_idx"], {"evaluations": 0, "classes": Counter(), "discards": Counter(),
                                               "known": Counter(), "nontrivial": set(), "samples": [],
                                               "wall_s": 0.0, "tags": set()})
        m["evaluations"] += res["evaluations"]
        m["classes"].update(res["classes"])
        m["discards"].update(res["discards"])
        m["known"].update(res["known"])
        m["nontrivial"] |= res["nontrivial"]
        m["tags"] |= res["tags"]
        m["samples"] += res["samples"]
        m["wall_s"] = max(m["wall_s"], res["wall_s"])
        violations += res["violations"]
        errors += res["errors"]

    # 3. generator health: class floors
    for sub_idx, sc in enumerate(subchecks):
        m = merged[sub_idx]
        scale = 1 if tier == "quick" else max(1, sc.examples[1] // max(1, sc.examples[0]))
        for label, floor in sc.floors.items():
            # the floors in the property modules are nominal; a case count below 40 % of the nominal value means the
            # generator no longer reaches the class (six quiet seeds stay above 83 % of every nominal value)
            if m["classes"].get(label, 0) < int(floor * 0.4):
                if not any(v["subcheck"] == sc.name for v in violations):
                    errors.append("generator floor missed: sub-check %s produced %d cases of class %r (floor %d)"
                                  % (sc.name, m["classes"].get(label, 0), label, int(floor * 0.4)))

    # 4. report
    total_eval = sum(m["evaluations"] for m in merged.values())
    distinct = sum(len(m["nontrivial"]) for m in merged.values())
    known_seen = Counter()
    for m in merged.values():
        known_seen.update(m["known"])
    for sub_idx, sc in enumerate(subchecks):
        m = merged[sub_idx]
        top = ", ".join("%s=%d" % kv for kv in sorted(m["classes"].items(), key=lambda kv: -kv[1])[:14])
        print("  %-22s evals=%-7d nontrivial=%-7d %5.1fs  %s" % (sc.name, m["evaluations"], len(m["nontrivial"]),
                                                                  m["wall_s"], top))
    for key in sorted(known_seen):
        print("KNOWN-FINDING: property=%s %s (%d observations; key=%s)"
              % (prop, findings.describe(prop, key), known_seen[key], key))
    seen = set()
    for v in violations:
        if v.get("summary_only"):
            print("  note: %s" % v["detail"])
            continue
        if v["replay"] in seen:
            continue
        seen.add(v["replay"])
        print("  violation in %s: %s" % (v["subcheck"], v["detail"][:600]))
        print("VIOLATION property=%s replay=%s" % (prop, v["replay"]))
    shown = set()
    for e in errors:
        key = e.split(" shard ")[0] + e.split("||")[0][-80:]
        if key in shown:
            continue
        shown.add(key)
        print("HARNESS-ERROR %s" % e)

    # 5. evidence
    samples = []
    per_sub = {}
    for sub_idx, sc in enumerate(subchecks):
        m = merged[sub_idx]
        samples += [{"subcheck": sc.name, "case": c} for c in m["samples"][:2]]
        entry = {"evaluations": m["evaluations"], "distinct_nontrivial": len(m["nontrivial"]),
                 "classes": dict(sorted(m["classes"].items())), "excluded": dict(m["discards"]),
                 "known_finding_observations": dict(m["known"]), "rule": sc.rule,
                 "kind": "coverage-guided fuzzing (atheris)" if sc.fuzz is not None else (
                     "enumeration" if sc.enum is not None else "hypothesis"),
                 "exhaustive": sc.enum is not None}
        if sc.enum is not None and sc.exhaustive_space:
            entry["space"] = sc.exhaustive_space
        if m["tags"]:
            entry["distinct_states_reached"] = dict(Counter(t.split(":")[0][1:] for t in m["tags"]))
        per_sub[sc.name] = entry
    if not samples:
        samples = [{"note": "no non-trivial case small enough to print"}]
    evidence = {
        "property_id": prop, "tier": tier, "seed": base_seed, "level": "exploration",
        "coverage": {
            "evaluations": total_eval, "distinct_nontrivial": distinct,
            "rule": getattr(module, "RULE", ""),
            "samples": samples,
            "exhaustive": all(sc.enum is not None for sc in subchecks),
            "exhaustive_subdomains": [sc.exhaustive_space for sc in subchecks
                                      if sc.enum is not None and sc.exhaustive_space],
            "subchecks": per_sub,
            "regression_replays_run": regress_run,
            "engine": "hypothesis %s + multiprocessing enumeration" % __import__("hypothesis").__version__,
        },
        "assumptions": list(getattr(module, "ASSUMPTIONS", [])),
        "wall_s": round(time.time() - started, 2),
        "violations": len(seen),
    }
    os.makedirs("evidence", exist_ok=True)
    with open(os.path.join("evidence", prop + ".json"), "w") as handle:
        json.dump(evidence, handle, indent=1, sort_keys=True)
        handle.write("\n")
    print("== %s %s: %d evaluations, %d distinct non-trivial, %d violation(s), %d harness error(s), %.1fs"
          % (prop, tier, total_eval, distinct, len(seen), len(errors), time.time() - started))
    if seen:
        return 1
    if errors:
        return 2
    return 0


if __name__ == "__main__":
    sys.exit(main(sys.argv[1:]))
