"""atheris (libFuzzer) target for the string-consuming entry points: decode (C06), repair_dna (C09, C10).

The bytes are decoded into a structured case (graph from a fixed pool of 64 arc subsets, start vertex, string over
ACGT plus foreign symbols, options) and the SAME evaluate function as the Hypothesis sub-checks is applied, so the
semantic oracle lives inside the target.  A violation writes the usual JSON replay and raises, which makes libFuzzer
stop; the parent (pbt/runner.py) turns that into a VIOLATION line.  Coverage instrumentation is limited to dsw.

usage: python -m pbt.fuzz.target <C06|C09|C10> <stats.json> <runs> [libFuzzer args...]
"""
import json
import os
import random
import sys

sys.path.insert(0, os.path.join(os.path.dirname(os.path.abspath(__file__)), "..", "..", ".deps"))
import atheris  # noqa: E402

from pbt import core, gens, oracles as o  # noqa: E402

PROP, STATS_PATH, RUNS = sys.argv[1], sys.argv[2], int(sys.argv[3])

with atheris.instrument_imports(include=["dsw"]):
    core.import_dsw()
from pbt import runner  # noqa: E402
from pbt.props import c06, c09, c10  # noqa: E402

ALPHABET = "ACGTACGTACGTACGTNa-"


def build_pool():
    pool = []
    for i in range(64):
        rng = random.Random(9000 + i)
        k = [1, 2, 2, 3][i % 4]
        density = [0.4, 0.55, 0.7, 0.85, 1.0][i % 5]
        rows = [gens._pattern(rng.random, density) for _ in range(4 ** k)]
        if i % 8 == 7:
            rows = o.prune_to_well_formed(rows, k)
        if i % 2:
            rows = gens._fix_fast(rows, rng)
        pool.append({"k": k, "rows": rows})
    return pool


POOL = build_pool()
STATE = {"execs": 0, "evaluations": 0, "classes": {}, "nontrivial": set(), "samples": [], "discards": 0,
         "violation": None}


def text_from(fdp, acgt_only):
    raw = fdp.ConsumeBytes(fdp.ConsumeIntInRange(0, 48))
    alphabet = "ACGT" if acgt_only else ALPHABET
    return "".join(alphabet[b % len(alphabet)] for b in raw)


def make_case(data):
    fdp = atheris.FuzzedDataProvider(data)
    graph = POOL[fdp.ConsumeIntInRange(0, 63)]
    k = graph["k"]
    start = fdp.ConsumeIntInRange(0, 4 ** k - 1)
    graph = dict(graph, start=start)
    table = None if fdp.ConsumeBool() else [fdp.ConsumeIntInRange(0, 23) for _ in range(4 ** k)]
    if PROP == "C06":
        fast = fdp.ConsumeBool() and all(bin(r).count("1") != 3 for r in graph["rows"])
        return {"graph": graph, "text": text_from(fdp, False), "table": table, "fast": fast,
                "check_kind": ["none", "right", "wrong", "wrong_length", "foreign"][fdp.ConsumeIntInRange(0, 4)],
                "check_len": fdp.ConsumeIntInRange(1, 6), "extra": fdp.ConsumeIntInRange(0, 5),
                "salt": fdp.ConsumeIntInRange(0, 65535)}
    text = text_from(fdp, True)
    if len(text) < k:
        text = (text + "ACGT" * k)[:k]
    if PROP == "C09":
        walk = "".join(c for c in text)
        return {"graph": graph, "walk": walk[: max(k, len(walk) // 2)], "text": text,
                "check_kind": ["none", "of_text", "of_walk", "wrong"][fdp.ConsumeIntInRange(0, 3)],
                "check_len": fdp.ConsumeIntInRange(1, 6), "indel": fdp.ConsumeBool(),
                "heap": [1, 10, 1000, 10 ** 4][fdp.ConsumeIntInRange(0, 3)], "salt": fdp.ConsumeIntInRange(0, 65535)}
    return {"graph": graph, "text": text, "kind": "fuzz", "check_len": [0, 3, 6][fdp.ConsumeIntInRange(0, 2)],
            "indel": fdp.ConsumeBool(), "heap": [1, 10, 1000, 10 ** 4][fdp.ConsumeIntInRange(0, 3)]}


EVALUATE = {"C06": c06.evaluate, "C09": c09.evaluate, "C10": c10.evaluate}[PROP]
SUBCHECK = {"C06": "normal", "C09": "repair_contract", "C10": "always_returns"}[PROP]


def dump(final=False):
    out = dict(STATE, nontrivial=len(STATE["nontrivial"]))
    if final:
        out["digests"] = [d.hex() for d in STATE["nontrivial"]]
    with open(STATS_PATH + ".tmp", "w") as handle:
        json.dump(out, handle)
    os.replace(STATS_PATH + ".tmp", STATS_PATH)


def test_one_input(data):
    STATE["execs"] += 1
    case = make_case(data)
    outcome = EVALUATE(case)
    STATE["evaluations"] += 1
    for label in outcome.classes:
        STATE["classes"][label] = STATE["classes"].get(label, 0) + 1
    if outcome.discard:
        STATE["discards"] += 1
    elif outcome.nontrivial:
        digest = core.digest(case)
        if digest not in STATE["nontrivial"]:
            STATE["nontrivial"].add(digest)
            if len(STATE["samples"]) < 3 and len(core.canonical(case)) < 1500:
                STATE["samples"].append(case)
    if not outcome.ok:
        path = runner.write_replay(PROP, SUBCHECK, case, outcome.detail, shrunk=False)
        STATE["violation"] = {"replay": path, "detail": outcome.detail}
        dump(final=True)
        raise RuntimeError("property violated: " + outcome.detail)
    if STATE["execs"] >= RUNS:
        dump(final=True)
    elif STATE["execs"] % 500 == 0:
        dump()


if __name__ == "__main__":
    atheris.Setup([sys.argv[0]] + sys.argv[4:] + ["-runs=%d" % RUNS], test_one_input)
    atheris.Fuzz()
