"""Parser for KNOWN_FINDINGS.txt (DESIGN 3.4).  The file is read, never written, at run time.

    finding: property=C02 key=<key>  <what fails>
    fixed: property=C07 <commit> <what failed>

Only ``finding:`` lines suppress anything, and only the failing observation whose matcher (in the property module)
produces exactly that key.  ``fixed:`` lines are documentation: they suppress nothing.
"""
import os
import re

from pbt import core

_CACHE = None


def _load():
    global _CACHE
    if _CACHE is None:
        _CACHE = {}
        path = os.path.join(core.VERIF, "KNOWN_FINDINGS.txt")
        if os.path.exists(path):
            with open(path) as handle:
                for line in handle:
                    match = re.match(r"finding:\s+property=(C\d+)\s+key=(\S+)\s+(.*)", line.strip())
                    if match:
                        _CACHE[(match.group(1), match.group(2))] = match.group(3)
    return _CACHE


def is_listed(prop, key):
    return (prop, key) in _load()


def describe(prop, key):
    return _load().get((prop, key), key)
