"""Operation interpreter for C20 histories, shared by the in-process evaluator and the fresh-interpreter worker.

A history is a JSON document {"bundle": {...}, "ops": [{"f": name, ...}, ...]}.  ``build_bundle`` turns the bundle
description into numpy / dict / filter objects; ``execute`` performs one call and returns a JSON-able, normalised
result ({"raised": type name} for exceptions).  Run as ``python -m pbt.history`` it reads a history on stdin,
executes the ops IN REVERSE ORDER on its own freshly built bundle and prints the list of results (in op order).
"""
import contextlib
import io
import json
import sys

from pbt import gens, oracles as o
from pbt.core import import_dsw


def shuffled_map(latter_map, seed):
    """The order of successors inside a latter-map list is not specified; a caller's hand-built map may be unsorted."""
    if seed is None:
        return latter_map
    import random
    rng = random.Random(seed)
    for values in latter_map.values():
        rng.shuffle(values)
    return latter_map


def build_bundle(desc):
    import numpy
    dsw = import_dsw()
    graph = desc["graph"]
    accessor = gens.accessor_of(graph, desc.get("layout"))
    bundle = {
        "k": graph["k"], "start": graph["start"], "accessor": accessor,
        "message": gens.bits_of(desc["bits"]),
        "table": gens.relayout(gens.table_of(desc["table"]), desc.get("layout")),
        "mask": numpy.array([int(c) for c in desc["mask"]], dtype=bool if desc["mask_bool"] else int),
        "latter_map": shuffled_map(dsw.accessor_to_latter_map(accessor), desc.get("map_order")),
        "filter": gens.build_local_filter(desc["filter"]),
        "strand": desc["strand"], "corrupted": desc["corrupted"], "number": desc["number"],
        "matrix": None, "motifs": list(desc.get("motifs") or ["GCC", "AAT"]), "gc_range": [0.25, 0.75],
    }
    if graph["k"] <= 3:
        matrix = numpy.zeros((4 ** graph["k"], 4 ** graph["k"]), dtype=int)
        for (u, w) in o.arcs(graph["rows"], graph["k"]):
            matrix[u, w] = 1
        bundle["matrix"] = matrix
    return bundle


def normalise(value):
    import numpy
    if isinstance(value, numpy.ndarray):
        return {"array": value.tolist(), "dtype": value.dtype.kind}
    if isinstance(value, (numpy.integer,)):
        return int(value)
    if isinstance(value, (numpy.floating, float)):
        return {"float": repr(float(value))}
    if isinstance(value, (numpy.bool_,)):
        return bool(value)
    if isinstance(value, dict):
        return {"dict": sorted([int(k), normalise(v)] for k, v in value.items())}
    if isinstance(value, (list, tuple)):
        return [normalise(v) for v in value]
    return value


def call(op, bundle):
    """Perform the library call described by op on the bundle's shared arguments."""
    import numpy
    dsw = import_dsw()
    f, k = op["f"], bundle["k"]
    verbose = op.get("verbose", False)
    acc, start = bundle["accessor"], bundle["start"]
    if f == "encode":
        return dsw.encode(binary_message=bundle["message"], accessor=acc, start_index=start, is_faster=op["fast"],
                          vt_length=op["vt"], shuffles=bundle["table"] if op["table"] else None,
                          need_path=op.get("path", False), verbose=verbose)
    if f == "decode":
        return dsw.decode(dna_sequence=bundle["corrupted"] if op.get("corrupted") else bundle["strand"],
                          bit_length=len(bundle["message"]), accessor=acc,
                          start_index=start, is_faster=False, shuffles=bundle["table"] if op["table"] else None,
                          vt_check=op.get("check"), verbose=verbose)
    if f == "set_vt":
        return dsw.set_vt(dna_sequence=bundle["strand"], vt_length=op["n"])
    if f == "repair_dna":
        check = o.ref_vt(bundle["strand"], op["check_len"]) if op.get("check_len") else None
        return dsw.repair_dna(dna_sequence=bundle["corrupted"], accessor=acc, start_index=start, observed_length=k,
                              vt_check=check, has_indel=op["indel"], heap_size=1000)
    if f == "path_matching":
        text = bundle["corrupted"][: 2 * k + 1] if len(bundle["corrupted"]) >= 2 * k + 1 else bundle["corrupted"]
        return dsw.path_matching(dna_sequence=text, accessor=acc, previous_index=start,
                                 occur_location=min(op["loc"], max(0, len(text) - 1)), has_indel=op["indel"])
    if f == "accessor_to_latter_map":
        return dsw.accessor_to_latter_map(accessor=acc, verbose=verbose)
    if f == "latter_map_to_accessor":
        return dsw.latter_map_to_accessor(latter_map=bundle["latter_map"], observed_length=k,
                                          threshold=op["threshold"], verbose=verbose)
    if f == "remove_useless":
        return dsw.remove_useless(latter_map=bundle["latter_map"], threshold=op["threshold"], verbose=verbose)
    if f == "accessor_to_adjacency_matrix":
        return dsw.accessor_to_adjacency_matrix(accessor=acc, verbose=verbose)
    if f == "adjacency_matrix_to_accessor":
        return dsw.adjacency_matrix_to_accessor(matrix=bundle["matrix"], verbose=verbose)
    if f == "obtain_vertices":
        return dsw.obtain_vertices(accessor=acc)
    if f == "obtain_leaf_vertices":
        root = start if op.get("vertex") is None else op["vertex"]
        if op["via_map"]:
            return dsw.obtain_leaf_vertices(vertex_index=root, depth=op["depth"], latter_map=bundle["latter_map"])
        return dsw.obtain_leaf_vertices(vertex_index=root, depth=op["depth"], accessor=acc)
    if f == "get_complete_accessor":
        return dsw.get_complete_accessor(observed_length=k, verbose=verbose)
    if f == "find_vertices":
        return dsw.find_vertices(observed_length=k, bio_filter=bundle["filter"], verbose=verbose)
    if f == "filter_valid":
        return bundle["filter"].valid(bundle["strand"], only_last=op["only_last"])
    if f == "connect_valid_graph":
        return dsw.connect_valid_graph(observed_length=k, vertices=bundle["mask"], verbose=verbose)
    if f == "connect_coding_graph":
        return dsw.connect_coding_graph(observed_length=k, vertices=bundle["mask"], threshold=op["t"],
                                        verbose=verbose)
    if f == "approximate_capacity":
        numpy.random.seed(op["np_seed"])
        return dsw.approximate_capacity(accessor=acc, repeats=op["repeats"], process=op.get("process", False),
                                        verbose=verbose)
    if f == "calculate_intersection_score":
        return dsw.calculate_intersection_score(latter_map=bundle["latter_map"], observed_length=k,
                                                has_insertion=op["ins"], has_deletion=op["dele"], verbose=verbose)
    if f == "create_random_shuffles":
        return dsw.create_random_shuffles(observed_length=k, random_seed=op["seed"], verbose=verbose)
    if f == "complete_then_trim":
        # arc removal is documented to work in place - on objects the caller owns (here: fresh results)
        complete = dsw.get_complete_accessor(observed_length=k)
        return dsw.remove_nasty_arc(accessor=complete, latter_map=dsw.accessor_to_latter_map(complete),
                                    verbose=verbose)[2]
    if f == "prune_then_trim":
        # documented in-place arc removal applied to objects the caller owns: the pruned map returned by
        # remove_useless and a private copy of the accessor rebuilt from it
        pruned = dsw.remove_useless(latter_map=bundle["latter_map"], threshold=op["threshold"])
        rebuilt = dsw.latter_map_to_accessor(latter_map=pruned, observed_length=k)
        return dsw.remove_nasty_arc(accessor=rebuilt, latter_map=pruned)[2]
    if f == "construct_filter":
        built = dsw.LocalBioFilter(observed_length=max(k, 3), max_homopolymer_runs=op["run"],
                                   gc_range=bundle["gc_range"], undesired_motifs=bundle["motifs"])
        return [built.valid(bundle["strand"], only_last=False), built.valid("ACGTTGCA" + bundle["strand"])]
    if f == "calculus":
        function = {"add": dsw.calculus_addition, "sub": dsw.calculus_subtraction,
                    "mul": dsw.calculus_multiplication, "div": dsw.calculus_division}[op["op"]]
        return function(number=bundle["number"], base=op["base"])
    if f == "bit_to_number":
        return dsw.bit_to_number(bit_array=bundle["message"].tolist(), is_string=op["is_string"], verbose=verbose)
    if f == "number_to_bit":
        return dsw.number_to_bit(decimal_number=bundle["number"], bit_length=op["width"])
    if f == "dna_to_number":
        return dsw.dna_to_number(dna_sequence=bundle["strand"], is_string=op["is_string"])
    if f == "number_to_dna":
        return dsw.number_to_dna(decimal_number=bundle["number"], dna_length=op["width"])
    raise KeyError("unknown op %r" % f)


def execute(op, bundle):
    """Returns (normalised result, raw result or None, captured stdout)."""
    buffer = io.StringIO()
    raw = None
    try:
        with contextlib.redirect_stdout(buffer):
            raw = call(op, bundle)
        result = normalise(raw)
    except Exception as exc:  # noqa - the exception type is part of the observable result
        result, raw = {"raised": type(exc).__name__}, None
    return result, raw, buffer.getvalue()


def main():
    history = json.load(sys.stdin)
    bundle = build_bundle(history["bundle"])
    results = [None] * len(history["ops"])
    for index in reversed(range(len(history["ops"]))):
        results[index] = execute(history["ops"][index], bundle)[0]
    json.dump(results, sys.stdout)


if __name__ == "__main__":
    main()
