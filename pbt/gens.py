"""Hypothesis strategies producing plain JSON-able building blocks (DESIGN 4.1) and their numpy expansions.

Graphs travel as {"k": k, "rows": [4-bit live pattern per vertex]}; tables as a list of permutation indices (0..23)
per vertex; messages as a "0101" string.  For k >= 4 the rows are derived from one drawn 32-bit integer through
``random.Random`` (a pure function of the drawn data, so replay and seeding still work; the expanded rows are what
the case stores).  Everything is built by construction: no ``assume``/``filter``.
"""
import itertools
import random

from hypothesis import strategies as st

from pbt import oracles as o

PERMS = [list(p) for p in itertools.permutations(range(4))]
IDENTITY = PERMS.index([0, 1, 2, 3])
DENSITIES = [0.25, 0.4, 0.55, 0.7, 0.85, 1.0]


# ----------------------------------------------------------------------------------------------- expansions

LAYOUTS = ["C", "C", "C", "F", "strided", "offset"]


_POOL = {}


def pooled(array, tag=""):
    """Hand out ONE long-lived array object per (shape, dtype, layout) and write each new content into it in place.

    Consecutive cases therefore pass the same numpy objects with different contents - exactly what a caller does who
    edits a graph, mask or table in place between calls (remove_nasty_arc works that way).  Library code that
    memoises on the identity of an argument then returns stale answers, which the ordinary oracles report.
    Set VERIF_NO_POOL=1 to get fresh arrays (debugging only)."""
    import os
    import numpy
    if os.environ.get("VERIF_NO_POOL"):
        return array
    key = (tag, array.shape, array.dtype.str, array.strides, bool(array.flags.writeable))
    buffer = _POOL.get(key)
    if buffer is None:
        _POOL[key] = array
        return array
    # only the owner (this harness) refills the buffer; whatever an earlier call did to its flag is undone
    buffer.setflags(write=True)
    numpy.copyto(buffer, array)
    buffer.setflags(write=bool(array.flags.writeable))
    return buffer


def relayout(array, layout):
    """Same values, different memory layout: C-contiguous, Fortran-ordered, a strided view, or a view at an offset
    inside a larger buffer (all are ordinary numpy arrays a caller may pass)."""
    import numpy
    if layout in ("int32", "int16"):
        # narrower integer types a caller may hold a graph in (e.g. loaded from a file); int16 only when indices fit
        if layout == "int16" and array.size and int(array.max()) > 32767:
            layout = "int32"
        return numpy.ascontiguousarray(array.astype(layout))
    if layout in (None, "C"):
        return numpy.ascontiguousarray(array)
    if layout == "readonly":
        # an array the caller cannot (and the library must not) write to: memory-mapped files, broadcast views,
        # arrays frozen on purpose - any in-place scratch use of an argument raises instead of going unnoticed
        frozen = numpy.array(array, copy=True, order="C")
        frozen.setflags(write=False)
        return frozen
    if layout == "F":
        return numpy.asfortranarray(array)
    if layout == "strided":
        big = numpy.full((array.shape[0], array.shape[1] * 2), -7, dtype=array.dtype)
        big[:, ::2] = array
        return big[:, ::2]
    big = numpy.full((array.shape[0] + 3, array.shape[1] + 1), -7, dtype=array.dtype)
    big[2:-1, 1:] = array
    return big[2:-1, 1:]


def accessor_of(graph, layout=None):
    import numpy
    k, rows = graph["k"], graph["rows"]
    n = 4 ** k
    if n >= 4096:
        succ = (numpy.arange(n).reshape(-1, 1) * 4 + numpy.arange(4)) % n  # same arithmetic as oracles.succ (k >= 6)
        bits = (numpy.array(rows).reshape(-1, 1) >> numpy.arange(4)) & 1
        acc = numpy.where(bits == 1, succ, -1).astype(int)
    else:
        table = o.succ_table(k)
        acc = -numpy.ones((n, 4), dtype=int)
        for v, r in enumerate(rows):
            for j in range(4):
                if (r >> j) & 1:
                    acc[v, j] = table[v][j]
    return pooled(relayout(acc, layout if layout is not None else graph.get("layout")), "accessor")


def table_of(perm_indices):
    import numpy
    if perm_indices is None:
        return None
    return pooled(numpy.array([PERMS[i] for i in perm_indices], dtype=int), "table")


def table_rows(perm_indices):
    return None if perm_indices is None else [PERMS[i] for i in perm_indices]


def bits_of(text, dtype=None):
    import numpy
    if dtype == "list":
        return [int(c) for c in text]
    if dtype in ("strided", "readonly"):
        return pooled(flat_variant(numpy.array([int(c) for c in text], dtype=int), dtype), "bits")
    return pooled(numpy.array([int(c) for c in text], dtype=dtype or int), "bits")


def flat_variant(array, variant):
    """A 1-D array (message, mask) as every second element of a wider buffer, or frozen (read-only)."""
    import numpy
    if variant == "strided":
        big = numpy.full(2 * len(array) + 1, 7, dtype=array.dtype)
        big[1::2] = array
        return big[1::2]
    frozen = numpy.array(array, copy=True)
    frozen.setflags(write=False)
    return frozen


def rows_of_accessor(acc, k):
    """Rows of a library accessor; raises ValueError naming the entry that is not -1 / the shift successor."""
    if tuple(acc.shape) != (4 ** k, 4):
        raise ValueError("accessor shape %r, expected %r" % (tuple(acc.shape), (4 ** k, 4)))
    if k >= 6:
        import numpy
        n = 4 ** k
        values = numpy.asarray(acc).astype(object if acc.dtype == object else numpy.int64)
        succ = (numpy.arange(n).reshape(-1, 1) * 4 + numpy.arange(4)) % n
        wrong = (values != succ) & (values != -1)
        if wrong.any():
            v, j = [int(x[0]) for x in numpy.nonzero(wrong)]
            raise ValueError("entry [%d,%d] = %d is neither -1 nor the shift successor %d"
                             % (v, j, int(values[v, j]), int(succ[v, j])))
        return [int(x) for x in ((values == succ) * (1 << numpy.arange(4))).sum(axis=1)]
    table = o.succ_table(k)
    rows = []
    for v in range(4 ** k):
        r = 0
        for j in range(4):
            value = int(acc[v, j])
            if value == table[v][j]:
                r |= 1 << j
            elif value != -1:
                raise ValueError("entry [%d,%d] = %d is neither -1 nor the shift successor %d"
                                 % (v, j, value, table[v][j]))
        rows.append(r)
    return rows


# ----------------------------------------------------------------------------------------------- graphs

def _pattern(rng_float, density):
    r = 0
    for j in range(4):
        if rng_float() < density:
            r |= 1 << j
    return r


@st.composite
def arc_subsets(draw, kmin=1, kmax=3, weights=None):
    """Arbitrary arc subsets of the order-k de Bruijn graph (not only vertex-induced ones)."""
    ks = list(range(kmin, kmax + 1))
    k = draw(st.sampled_from(ks if weights is None else [kk for kk in ks for _ in range(weights.get(kk, 1))]))
    n = 4 ** k
    density = draw(st.sampled_from(DENSITIES))
    if k <= 2:
        if density >= 1.0:
            rows = [15] * n
            holes = draw(st.lists(st.tuples(st.integers(0, n - 1), st.integers(0, 15)), max_size=4))
            for v, pattern in holes:
                rows[v] = pattern
        else:
            weights4 = [(1 - density) ** (4 - bin(p).count("1")) * density ** bin(p).count("1") for p in range(16)]
            cum, total = [], 0.0
            for w in weights4:
                total += w
                cum.append(total)
            rows = []
            for _ in range(n):
                x = draw(st.integers(0, 9999)) / 10000.0 * total
                rows.append(next(p for p in range(16) if x < cum[p] or p == 15))
    else:
        rng = random.Random(draw(st.integers(0, 2 ** 32 - 1)))
        rows = [_pattern(rng.random, density) for _ in range(n)]
    return {"k": k, "rows": rows}


def _fix_fast(rows, rng):
    """Remove one arc (or add the missing one) at every row with exactly three live arcs."""
    out = list(rows)
    for v, r in enumerate(out):
        if bin(r).count("1") == 3:
            if rng.random() < 0.5:
                out[v] = 15
            else:
                lv = [j for j in range(4) if (r >> j) & 1]
                out[v] = r & ~(1 << lv[rng.randrange(3)])
    return out


@st.composite
def coding_graphs(draw, kmin=1, kmax=3, fast=False, weights=None):
    """C01's graph domain: every vertex with arcs can reach a branching vertex and every arc leads to such a
    vertex; out-degrees 1..4 mixed (no 3 when fast).  Returns {"k", "rows", "start"}."""
    graph = draw(arc_subsets(kmin, kmax, weights))
    k = graph["k"]
    rng = random.Random(draw(st.integers(0, 2 ** 32 - 1)))
    rows = graph["rows"]
    for attempt in range(8):
        while True:
            if fast:
                rows = _fix_fast(rows, rng)
            rows = o.prune_to_well_formed(rows, k)
            if not fast or all(bin(r).count("1") != 3 for r in rows):
                break
        if any(rows):
            break
        # nothing survived: re-densify deterministically (never assume/reject)
        density = min(1.0, 0.6 + 0.1 * attempt)
        rows = [_pattern(rng.random, density) for _ in range(4 ** k)]
        if attempt == 7:
            rows = [15] * (4 ** k)
    starts = [v for v, r in enumerate(rows) if r]
    start = starts[draw(st.integers(0, len(starts) - 1))]
    return {"k": k, "rows": rows, "start": start}


@st.composite
def masks(draw, k, densities=None):
    """Vertex mask as a list of 0/1 (length 4^k)."""
    n = 4 ** k
    if k <= 2 and densities is None:
        return draw(st.lists(st.integers(0, 1), min_size=n, max_size=n))
    density = draw(st.sampled_from(densities or [0.2, 0.35, 0.5, 0.65, 0.8, 0.9, 0.97]))
    rng = random.Random(draw(st.integers(0, 2 ** 32 - 1)))
    return [1 if rng.random() < density else 0 for _ in range(n)]


# ----------------------------------------------------------------------------------------------- messages, tables

@st.composite
def messages(draw, max_len=64, min_len=0):
    shape = draw(st.sampled_from(["random", "random", "random", "random", "random", "random", "random", "random",
                                  "random", "zeros", "leading_zeros", "single_one", "ones", "empty", "tiny",
                                  "decimal_round", "decimal_round"]))
    if shape == "decimal_round":
        # values that are round in DECIMAL (m * 10^j + r, 6^a * 10^b): coincidences of the decimal string arithmetic
        m = draw(st.one_of(st.integers(1, 999), st.sampled_from([2, 3, 5, 6, 8, 25, 125, 6 ** 5, 6 ** 20, 3 ** 30])))
        j = draw(st.one_of(st.integers(1, 60), st.sampled_from([9, 10, 18, 19, 21, 27, 40])))
        value = m * 10 ** j + draw(st.sampled_from([0, 0, 0, 1, 2, 7]))
        text = format(value, "b")
        if len(text) > max_len:
            text = format(m * 10 ** max(1, int(max_len * 0.30103) - len(str(m)) - 1), "b")[:max_len]
        if len(text) < min_len:
            text = text.zfill(min_len)
        return "0" * draw(st.sampled_from([0, 0, 1, 3])) + text if len(text) + 3 <= max_len else text
    if shape == "empty" and min_len == 0:
        return ""
    if shape == "tiny":
        n = draw(st.integers(max(1, min_len), max(min_len, 6)))
    else:
        n = draw(st.one_of(st.integers(max(1, min_len), max(min_len, 24)), st.integers(max(1, min_len), max_len),
                           st.integers(min(max_len, max(8, min_len)), max_len)))
    if shape == "zeros":
        return "0" * n
    if shape == "ones":
        return "1" * n
    if shape == "single_one":
        pos = draw(st.integers(0, n - 1))
        return "0" * pos + "1" + "0" * (n - 1 - pos)
    if shape == "random" and draw(st.integers(0, 3)) > 0:
        rng = random.Random(draw(st.integers(0, 2 ** 32 - 1)))
        text = format(rng.getrandbits(n), "b").zfill(n)
    elif n <= 48:
        text = draw(st.text(alphabet="10", min_size=n, max_size=n))
    else:
        head = draw(st.text(alphabet="10", min_size=16, max_size=16))
        text = head + format(draw(st.integers(2 ** (n - 17), 2 ** (n - 16) - 1)), "b").zfill(n - 16)
    if shape == "leading_zeros":
        z = draw(st.integers(1, n))
        text = "0" * z + text[z:]
    return text


@st.composite
def tables(draw, k, allow_none=True):
    n = 4 ** k
    kind = draw(st.sampled_from((["none"] if allow_none else []) + ["random", "random", "identity", "reversed"]))
    if kind == "none":
        return None
    if kind == "identity":
        return [IDENTITY] * n
    if kind == "reversed":
        return [PERMS.index([3, 2, 1, 0])] * n
    if k <= 2:
        return draw(st.lists(st.integers(0, 23), min_size=n, max_size=n))
    rng = random.Random(draw(st.integers(0, 2 ** 32 - 1)))
    return [rng.randrange(24) for _ in range(n)]


# ----------------------------------------------------------------------------------------------- walks and edits

@st.composite
def walks(draw, graph, start, min_len=0, max_len=40):
    """A walk of the graph from start (stops early at a dead end)."""
    k, rows = graph["k"], graph["rows"]
    table = o.succ_table(k)
    n = draw(st.integers(min_len, max_len))
    rng = random.Random(draw(st.integers(0, 2 ** 32 - 1)))
    v, out = start, []
    for _ in range(n):
        lv = o.live(rows, v)
        if not lv:
            break
        j = lv[rng.randrange(len(lv))]
        out.append(o.NUC[j])
        v = table[v][j]
    return "".join(out)


def apply_edit(s, edit):
    kind, pos, c = edit
    if kind == "S":
        return s[:pos] + c + s[pos + 1:]
    if kind == "I":
        return s[:pos] + c + s[pos:]
    return s[:pos] + s[pos + 1:]


@st.composite
def edits(draw, s, count, alphabet="ACGT"):
    """Up to ``count`` edits applied right to left at drawn positions; every edit changes the string."""
    out = s
    for _ in range(count):
        if not out:
            kind = "I"
        else:
            kind = draw(st.sampled_from(["S", "S", "I", "D"]))
        if kind == "I":
            pos = draw(st.integers(0, len(out)))
            out = apply_edit(out, ("I", pos, draw(st.sampled_from(alphabet))))
        elif kind == "D":
            pos = draw(st.integers(0, len(out) - 1))
            out = apply_edit(out, ("D", pos, ""))
        else:
            pos = draw(st.integers(0, len(out) - 1))
            choices = [c for c in alphabet if c != out[pos]]
            out = apply_edit(out, ("S", pos, draw(st.sampled_from(choices))))
    return out


# incl. full-width / compatibility forms of A C G T, line separators of every kind, and lone surrogates (ordinary str
# values: text read with errors="surrogateescape", json.loads of an escaped half pair) that no codec can encode
FOREIGN = ("acgtNn-U0 1é中\n\t\r\x00\uff21\uff23\uff27\uff34\U0001d400\u24b6\u1d2c"
           "\x0b\x0c\x1c\x85\u2028\u2029\ud800\udfff\udc80")
# characters that string tools treat as "nothing" at the end of a line / text (regex `$`, strip, splitlines, C strings)
TAIL_TRICKS = ["\n", "\r", "\r\n", " ", "\t", "\x00", "\x0b", "\x0c", "\x1c", "\x85", "\u2028", "\u2029", "\n\n",
               "\ufeff", "\u200b"]


@st.composite
def any_strings(draw, max_len=30):
    kind = draw(st.sampled_from(["acgt", "acgt", "foreign", "empty"]))
    if kind == "empty":
        return ""
    if kind == "acgt":
        return draw(st.text(alphabet="ACGT", max_size=max_len))
    return draw(st.text(alphabet="ACGT" + FOREIGN, min_size=1, max_size=max_len))


# ----------------------------------------------------------------------------------------------- filters

GC_TEXTS = ["0", "0.25", "0.5", "0.75", "1", "0.1", "0.2", "0.3", "0.4", "0.6", "0.7", "0.8", "0.9", "0.35", "0.65"]


@st.composite
def gc_ranges(draw):
    kind = draw(st.sampled_from(["none", "pair", "pair", "degenerate", "dyadic"]))
    if kind == "none":
        return None
    pool = GC_TEXTS[:5] if kind == "dyadic" else GC_TEXTS
    a, b = draw(st.sampled_from(pool)), draw(st.sampled_from(pool))
    if kind == "degenerate":
        return [a, a]
    lo, hi = sorted([a, b], key=float)
    return [lo, hi]


@st.composite
def local_filter_cfgs(draw, k, decidable=True):
    """Configuration of the built-in local filter; with decidable=True only window-decidable ones."""
    run_pool = [None] + list(range(1, k)) if decidable else [None] + list(range(1, k + 3))
    run = draw(st.sampled_from(run_pool))
    gc = draw(gc_ranges())
    motif_kind = draw(st.sampled_from(["none", "none", "some"]))
    motifs = None
    if motif_kind == "some":
        max_motif = k if decidable else k + 2
        motifs = draw(st.lists(st.text(alphabet="ACGT", min_size=1, max_size=max_motif), min_size=0, max_size=3))
        if k >= 3:
            motifs = [m for m in motifs if len(m) >= 2] or motifs[:1]
    return {"k": k, "run": run, "gc": gc, "motifs": motifs}


def build_local_filter(cfg):
    from pbt.core import import_dsw
    dsw = import_dsw()
    gc = None if cfg.get("gc") is None else [float(cfg["gc"][0]), float(cfg["gc"][1])]
    motifs = None if cfg.get("motifs") is None else list(cfg["motifs"])
    if cfg.get("tuples"):  # the same configuration handed over as tuples
        gc = None if gc is None else tuple(gc)
        motifs = None if motifs is None else tuple(motifs)
    return dsw.LocalBioFilter(observed_length=cfg["k"], max_homopolymer_runs=cfg.get("run"), gc_range=gc,
                              undesired_motifs=motifs)


@st.composite
def user_filter_cfgs(draw, k):
    """User-defined window predicates written to the documented interface valid(self, dna_string)."""
    kind = draw(st.sampled_from(["set", "regional_gc", "forbidden", "purine", "table", "derived"]))
    if kind == "derived":
        # a user filter derived from the built-in one: its own extra (forward-only) rule on top of an inherited
        # GC rule; the documented extension point is the valid() method
        return {"kind": "derived", "k": k, "gc": draw(st.sampled_from([["0", "1"], ["0.25", "0.75"], ["0", "0.5"]])),
                "forbids": draw(st.text(alphabet="ACGT", min_size=1, max_size=min(k, 3)))}
    if kind in ("set", "table"):
        density = draw(st.sampled_from([0.15, 0.3, 0.5, 0.7, 0.9]))
        rng = random.Random(draw(st.integers(0, 2 ** 32 - 1)))
        members = [v for v in range(4 ** k) if rng.random() < density]
        if not members:
            members = [rng.randrange(4 ** k)]
        return {"kind": kind, "k": k, "members": members}
    if kind == "regional_gc":
        return {"kind": "regional_gc", "k": k, "window": draw(st.integers(1, k)),
                "bias": draw(st.sampled_from(["0", "0.1", "0.2", "0.25", "0.3", "0.5"]))}
    if kind == "forbidden":
        subs = draw(st.lists(st.text(alphabet="ACGT", min_size=1, max_size=k), min_size=1, max_size=3))
        return {"kind": "forbidden", "k": k, "subs": subs}
    return {"kind": "purine", "k": k, "max": draw(st.integers(0, k))}


def user_predicate(cfg):
    """Independent evaluation of a user-defined filter on a k-mer / window (the drawn rule itself)."""
    kind = cfg["kind"]
    if kind in ("set", "table"):
        members = set(cfg["members"])
        return lambda s: o.index(s) in members
    if kind == "regional_gc":
        from fractions import Fraction
        w, bias = cfg["window"], Fraction(cfg["bias"])

        def regional(s):
            if len(s) >= w:
                for i in range(len(s) - w + 1):
                    gc = s[i: i + w].count("C") + s[i: i + w].count("G")
                    if gc > (Fraction(1, 2) + bias) * w or gc < (Fraction(1, 2) - bias) * w:
                        return False
                return True
            gc = s.count("C") + s.count("G")
            at = s.count("A") + s.count("T")
            return not (gc > (Fraction(1, 2) + bias) * w or at > (Fraction(1, 2) + bias) * w)
        return regional
    if kind == "derived":
        base_cfg = {"k": cfg["k"], "run": None, "gc": cfg["gc"], "motifs": None}
        return lambda s: o.ref_local_filter(base_cfg, s, only_last=True) is not False and cfg["forbids"] not in s
    if kind == "forbidden":
        return lambda s: not any(sub in s for sub in cfg["subs"])
    return lambda s: s.count("A") + s.count("G") <= cfg["max"]


_TABLE_FILTER = []


def table_filter_class():
    """A user filter class defined ONCE (module level, as a user would) whose state is a numpy lookup table."""
    if not _TABLE_FILTER:
        from pbt.core import import_dsw
        dsw = import_dsw()

        class LookupTableFilter(dsw.DefaultBioFilter):
            def __init__(self, observed_length, accepted):
                import numpy
                super().__init__(screen_name="lookup table")
                self.observed_length = observed_length
                self.table = numpy.zeros(4 ** observed_length, dtype=bool)
                self.table[sorted(accepted)] = True

            def valid(self, dna_string):
                return bool(self.table[o.index(dna_string)])

            def __call__(self, dna_string):
                """A convenience some users add: the list of reasons for a rejection (never used by the library)."""
                return [] if self.valid(dna_string) else ["not in the accepted table"]

        _TABLE_FILTER.append(LookupTableFilter)
    return _TABLE_FILTER[0]


def build_user_filter(cfg):
    from pbt.core import import_dsw
    dsw = import_dsw()
    if cfg["kind"] == "table":
        return table_filter_class()(cfg["k"], cfg["members"])
    if cfg["kind"] == "derived":
        forbids = cfg["forbids"]

        class DerivedFilter(dsw.LocalBioFilter):
            def valid(self, dna_sequence, only_last=True):
                return super().valid(dna_sequence, only_last=only_last) and forbids not in dna_sequence

        return DerivedFilter(observed_length=cfg["k"], gc_range=[float(cfg["gc"][0]), float(cfg["gc"][1])])
    predicate = user_predicate(cfg)

    class UserFilter(dsw.DefaultBioFilter):
        def __init__(self):
            super().__init__(screen_name="user-defined " + cfg["kind"])
            self.calls = 0

        def valid(self, dna_string):
            self.calls += 1
            return bool(predicate(dna_string))

    return UserFilter()


# ----------------------------------------------------------------------------------------------- generated graphs

@st.composite
def generated_graphs(draw, kmin=1, kmax=4, weights=None, thresholds=(1, 1, 2, 2, 3)):
    """A vertex mask and threshold whose coding graph (by the independent closure oracle) is non-empty, built by
    construction (the mask is densified until the oracle's graph exists).  Returns {"k", "t", "mask", "rows"} where
    rows is the ORACLE's graph; evaluators regenerate with the library and compare."""
    ks = list(range(kmin, kmax + 1))
    k = draw(st.sampled_from(ks if weights is None else [kk for kk in ks for _ in range(weights.get(kk, 1))]))
    t = draw(st.sampled_from(list(thresholds)))
    n = 4 ** k
    base = {1: [0.35, 0.5, 0.65, 0.8, 0.95], 2: [0.6, 0.7, 0.8, 0.9, 1.0], 3: [0.85, 0.92, 0.97, 1.0]}[t]
    density = draw(st.sampled_from(base))
    rng = random.Random(draw(st.integers(0, 2 ** 32 - 1)))
    bits = [1 if rng.random() < density else 0 for _ in range(n)]
    for _ in range(40):
        kept, _, _ = o.largest_closed_subgraph({i for i, b in enumerate(bits) if b}, k, t)
        if kept:
            break
        zeros = [i for i, b in enumerate(bits) if not b]
        if not zeros:
            break
        for i in rng.sample(zeros, max(1, len(zeros) // 3)):
            bits[i] = 1
    else:
        bits = [1] * n
        kept = set(range(n))
    return {"k": k, "t": t, "mask": "".join(map(str, bits)), "rows": o.rows_from_mask(kept, k)}


def library_graph(spec):
    """Run the library's generation on a generated_graphs() spec.  Returns (rows, None) or (None, reason)."""
    import numpy
    from pbt.core import Raised, import_dsw, lib_call
    dsw = import_dsw()
    mask = pooled(numpy.array([int(c) for c in spec["mask"]], dtype=int), "mask")
    result = lib_call(dsw.connect_coding_graph, observed_length=spec["k"], vertices=mask, threshold=spec["t"])
    if isinstance(result, Raised):
        return None, "generation_raised:" + result.name
    try:
        rows = rows_of_accessor(result[1], spec["k"])
    except ValueError:
        return None, "generation_malformed"
    return rows, None


def relax_until_satisfiable(cfg):
    """Construction aid: drop rules of a local-filter configuration until at least two k-mers pass (by the
    independent predicate), so that generated filters rarely end in 'no vertex' (never rejects a draw)."""
    k = cfg["k"]
    cfg = dict(cfg)
    for key in ("gc", "motifs", "run", None):
        passing = sum(1 for v in range(4 ** k) if o.ref_local_filter(cfg, o.kmer(v, k)) is not False)
        if passing >= 2 or key is None:
            break
        cfg[key] = None
    return cfg



@st.composite
def cascade_vertices(draw, k):
    """Vertices of a chain of `levels` diamonds U_0 => U_1 => ... => U_n (two parallel paths between consecutive
    k-mers) whose last k-mer only leads into the A..A self-loop: at threshold 1 the reach-pruning has to run once per
    level, because a level only stops being informative after the next one has lost its arcs.  Returns
    (sorted vertex list, levels)."""
    rng = random.Random(draw(st.integers(0, 2 ** 32 - 1)))
    levels = draw(st.sampled_from([2, 3, 4, 5, 5, 6, 6, 7, 8, 9, 12]))
    units = ["".join(rng.choice("CGT") for _ in range(k)) for _ in range(levels + 1)]
    strings = []
    for i in range(levels):
        a, b = rng.sample("CGT", 2)
        strings += [units[i] + a + units[i + 1], units[i] + b + units[i + 1]]
    a, b = rng.sample("ACGT", 2)
    strings += [units[-1] + a + "A" * k + "A", units[-1] + b + "A" * k + "A"]
    vertices = set()
    for text in strings:
        for i in range(len(text) - k + 1):
            vertices.add(o.index(text[i: i + k]))
    return sorted(vertices), levels

# ----------------------------------------------------------------------------------------------- large k, tiny graphs

@st.composite
def tiny_masks(draw, k):
    """A handful of vertices of a long observed length (k up to 10): the k-windows of a few short circular strings
    that share low-complexity material, so that small closed sub-graphs with branching exist.  Returned as a sorted
    list of vertex indices (the mask itself has 4^k entries)."""
    rng = random.Random(draw(st.integers(0, 2 ** 32 - 1)))
    unit = draw(st.sampled_from(["A", "C", "T", "AC", "GT", "ACG", "AAC"]))
    base = (unit * (k // len(unit) + 2))[:k]
    circles = [unit]  # the periodic k-mer cycle
    for _ in range(draw(st.integers(1, 3))):
        insert = "".join(rng.choice("ACGT") for _ in range(rng.randrange(1, 5)))
        circles.append(base + insert)
    vertices = set()
    for circle in circles:
        doubled = circle * (k // len(circle) + 2)
        for i in range(len(circle)):
            vertices.add(o.index(doubled[i: i + k]))
    for _ in range(draw(st.integers(0, 3))):  # a few stray vertices that must be trimmed away
        vertices.add(rng.randrange(4 ** k))
    return sorted(vertices)
