#!/bin/bash
# tools/mutant.sh <patch.diff> <ID> [ID...]   - run checks (quick, VERIF_TIER overrides) against a scratch worktree
# of /repo HEAD with the patch applied. Never touches /repo's working tree. Prints the verdict per property.
patch="$1"; shift
wt=$(mktemp -d /tmp/mw.XXXXXX); rmdir "$wt"
git -C /repo worktree add --detach "$wt" HEAD -q || exit 2
if ! git -C "$wt" apply "$patch"; then echo "PATCH DOES NOT APPLY"; git -C /repo worktree remove --force "$wt"; exit 2; fi
cd /verif
for id in "$@"; do
  out=$(VERIF_REPO="$wt" ./check "$id" "${VERIF_TIER:-quick}" 2>&1); code=$?
  nviol=$(echo "$out" | grep -c '^VIOLATION')
  echo "[$id] exit=$code violations=$nviol $(echo "$out" | grep -m1 'violation in' | cut -c1-260)"
  [ "$code" = 2 ] && echo "$out" | grep -m2 HARNESS-ERROR | cut -c1-300
done
git -C /repo worktree remove --force "$wt"
[ -n "$KEEP" ] || find /verif/replays -name "*.json" ! -name "regress-*" -newer "$patch" -delete 2>/dev/null
exit 0
