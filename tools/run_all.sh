#!/bin/bash
# tools/run_all.sh [tier] - run every registered check once (VERIF_SEED honoured), print one line per property
tier=${1:-quick}; cd "$(dirname "$0")/.."
for id in $(/venv/bin/python -c "import json;print(' '.join(c['property_id'] for c in json.load(open('MANIFEST.json'))['checks']))"); do
  s=$(date +%s.%N); out=$(./check $id $tier 2>&1); code=$?; e=$(date +%s.%N)
  printf "%s exit=%d %.1fs %s\n" $id $code $(echo "$e - $s" | bc) "$(echo "$out" | grep -E '^(VIOLATION|HARNESS-ERROR|KNOWN-FINDING)' | head -3 | cut -c1-160 | tr '\n' ' ')"
done
