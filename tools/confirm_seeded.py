#!/venv/bin/python
"""Confirm every seeded change under /verif/seeded and record which checks catch it.

For each seeded/<name>/patch.diff: scratch worktree of /repo HEAD -> apply -> the 30 pinned tests must pass ->
demo.py must fail with the change and pass without it -> the property's quick check (and any extra ids given in
EXTRA) is run against the worktree through VERIF_REPO.  Writes seeded/<name>/meta.json.  /repo's working tree is never
touched; the worktree is removed afterwards.

usage: tools/confirm_seeded.py [name ...]      (default: all)
"""
import json
import os
import re
import subprocess
import sys
import tempfile
from concurrent.futures import ThreadPoolExecutor

ROOT = os.path.dirname(os.path.dirname(os.path.abspath(__file__)))
PY = "/venv/bin/python"


def sh(cmd, cwd=None, env=None, timeout=1800):
    done = subprocess.run(cmd, shell=True, cwd=cwd, env=env, capture_output=True, text=True, timeout=timeout)
    return done.returncode, done.stdout + done.stderr


def confirm(name):
    folder = os.path.join(ROOT, "seeded", name)
    prop = name.split("-")[0]
    meta_path = os.path.join(folder, "meta.json")
    old = json.load(open(meta_path)) if os.path.exists(meta_path) else {}
    wt = tempfile.mkdtemp(prefix="seedwt.", dir="/tmp")
    os.rmdir(wt)
    sh("git -C /repo worktree add --detach %s HEAD -q" % wt)
    meta = {"name": name, "breaks_property": prop, "origin": old.get("origin", "independent sub-agent given only "
            "the property text and a scratch worktree"), "repo_head": sh("git -C /repo rev-parse --short HEAD")[1].strip()}
    try:
        env = dict(os.environ, PYTHONPATH=wt, PYTHONDONTWRITEBYTECODE="1")
        code, out = sh("%s demo.py" % PY, cwd=folder, env=dict(env, PYTHONPATH=wt), timeout=300)
        meta["demo_on_clean_tree_exit"] = code
        code, out = sh("git -C %s apply %s/patch.diff" % (wt, folder))
        meta["patch_applies"] = code == 0
        if code != 0:
            meta["error"] = out[-300:]
            return meta
        code, out = sh("%s -m pytest -q -p no:cacheprovider -n 4 --timeout=900" % PY, cwd=wt, env=env)
        match = re.search(r"(\d+) passed", out)
        meta["suite_with_change"] = {"passed": int(match.group(1)) if match else 0, "exit": code}
        code, out = sh("%s demo.py" % PY, cwd=folder, env=dict(env, PYTHONPATH=wt), timeout=300)
        meta["demo_with_change_exit"] = code
        meta["demo_tail"] = out.strip().splitlines()[-1][:200] if out.strip() else ""
        caught = {}
        for check in [prop] + old.get("also_run", []):
            code, out = sh("./check %s quick" % check, cwd=ROOT, env=dict(os.environ, VERIF_REPO=wt), timeout=3600)
            first = next((line.strip()[:300] for line in out.splitlines() if "violation in" in line), "")
            caught[check] = {"exit": code, "violations": out.count("\nVIOLATION"), "first": first}
        meta["checks_quick"] = caught
        meta["also_run"] = old.get("also_run", [])
        for key in ("needs_to_manifest", "thorough", "note", "holdout_raw", "strengthened_after_holdout"):
            if key in old:
                meta[key] = old[key]
        notes = open(os.path.join(folder, "notes.md")).read() if os.path.exists(os.path.join(folder, "notes.md")) else ""
        meta.setdefault("needs_to_manifest", " ".join(notes.split())[:700])
        meta["confirmed"] = bool(meta["demo_on_clean_tree_exit"] == 0 and meta["demo_with_change_exit"] != 0
                                 and meta["suite_with_change"]["passed"] == 30
                                 and meta["suite_with_change"]["exit"] == 0)
        meta["what_was_run"] = ("git worktree of /repo HEAD; git apply patch.diff; pytest -q -n 4 (30 passed "
                                "required); demo.py with and without the change; ./check <id> quick with "
                                "VERIF_REPO=<worktree>")
    finally:
        sh("git -C /repo worktree remove --force %s" % wt)
        with open(meta_path, "w") as handle:
            json.dump(meta, handle, indent=1, sort_keys=True)
            handle.write("\n")
    return meta


def main():
    names = sys.argv[1:] or sorted(d for d in os.listdir(os.path.join(ROOT, "seeded"))
                                   if os.path.isdir(os.path.join(ROOT, "seeded", d)))
    with ThreadPoolExecutor(max_workers=3) as pool:
        for meta in pool.map(confirm, names):
            checks = meta.get("checks_quick", {})
            print("%-10s confirmed=%s suite=%s demo(clean/changed)=%s/%s caught=%s" % (
                meta["name"], meta.get("confirmed"), meta.get("suite_with_change", {}).get("passed"),
                meta.get("demo_on_clean_tree_exit"), meta.get("demo_with_change_exit"),
                {k: v["exit"] for k, v in checks.items()}), flush=True)


if __name__ == "__main__":
    main()
