#!/bin/bash
# tools/replay_on_mutant.sh <patch.diff> <ID> <replay.json>  - run one replay against a scratch worktree with the patch
wt=$(mktemp -d /tmp/mw.XXXXXX); rmdir "$wt"
git -C /repo worktree add --detach "$wt" HEAD -q || exit 2
git -C "$wt" apply "$1" || { echo "PATCH DOES NOT APPLY"; git -C /repo worktree remove --force "$wt"; exit 2; }
cd /verif; VERIF_REPO="$wt" ./check "$2" quick --replay "$3" | tail -2 | cut -c1-200; code=${PIPESTATUS[0]}
git -C /repo worktree remove --force "$wt"; exit $code
