#!/venv/bin/python
"""Regenerate MANIFEST.json from the property modules that exist (python tools/mkmanifest.py)."""
import importlib
import json
import os
import sys

ROOT = os.path.dirname(os.path.dirname(os.path.abspath(__file__)))
sys.path.insert(0, ROOT)
os.chdir(ROOT)

ids = [json.loads(line)["id"] for line in open("properties.jsonl")]
checks, missing = [], []
for pid in ids:
    if not os.path.exists(os.path.join("pbt", "props", pid.lower() + ".py")):
        missing.append(pid)
        continue
    module = importlib.import_module("pbt.props." + pid.lower())
    checks.append({
        "property_id": pid,
        "quick_cmd": "./check %s quick" % pid,
        "thorough_cmd": "./check %s thorough" % pid,
        "evidence_file": "evidence/%s.json" % pid,
        "replay_cmd_template": "./check %s quick --replay {path}" % pid,
        "engine": "pbt-runner",
        "technique": module.TECHNIQUE,
        "level_claimed": {"category": "exploration", "text": module.LEVEL_TEXT,
                          "design_ref": "DESIGN.md section 7, %s" % pid},
        "level_note": module.LEVEL_NOTE + " Common to all checks: library calls go through pbt/core.lib_call "
                      "(repeat-call reproducibility probe, held results, warnings escalated on the repeat, tiny numpy "
                      "print threshold) and receive pooled argument objects (pbt/gens.pooled); see DESIGN.md, "
                      "'Corrections and deviations'.",
    })
manifest = {
    "version": 1,
    "setup_cmd": "(/venv/bin/python -c 'import hypothesis' 2>/dev/null || /venv/bin/pip install --no-index "
                 "--find-links /opt/veriftools/wheels hypothesis) && (PYTHONPATH=.deps /venv/bin/python -c 'import "
                 "atheris' 2>/dev/null || /venv/bin/pip install --no-index --find-links /opt/veriftools/wheels "
                 "--target .deps atheris)",
    "hooks": {
        "guard": "DNASPIDERWEB_VERIF",
        "enable": "no source hooks exist: look-ups are counted through an ndarray-subclass proxy passed in from "
                  "outside and statelessness through argument snapshots, so checks import /repo's working tree as is",
        "baseline_off_cmd": "cd /repo && /venv/bin/python -m pytest -ra -q -p no:cacheprovider --timeout=900 "
                            "--continue-on-collection-errors",
        "source_commits": [],
        "add_only": True,
    },
    "engines": [
        {"name": "pbt-runner", "path": "pbt/runner.py", "serves_properties": [c["property_id"] for c in checks],
         "kind_free_text": "Hypothesis 6.168 property-based testing (seeded by VERIF_SEED, sharded over 16 "
                           "processes, shrinking to a JSON replay file) plus complete multiprocessing enumeration of "
                           "the finite sub-domains; explicit independent oracles in pbt/oracles.py"},
        {"name": "atheris-target", "path": "pbt/fuzz/target.py", "serves_properties": ["C06", "C09", "C10"],
         "kind_free_text": "atheris 3.1 / libFuzzer coverage-guided campaigns (instrumenting dsw only) whose target "
                           "decodes bytes into structured cases and applies the same semantic oracle; run as "
                           "sub-checks by pbt/runner.py"},
    ],
    "checks": checks,
    "notes": "Genuine defects repaired in /repo by unguarded 'fix:' commits are listed in KNOWN_FINDINGS.txt as "
             "'fixed:' lines; the one recorded finding (C02, LocalBioFilter accepts max_homopolymer_runs == "
             "observed_length) is a 'finding:' line. See DESIGN.md sections 3 and 6.",
    "not_applicable": [{"property_id": pid,
                        "reason": "check not built yet in this session (the technique applies; see DESIGN.md section 7)"}
                       for pid in missing],
}
with open("MANIFEST.json", "w") as handle:
    json.dump(manifest, handle, indent=1)
    handle.write("\n")
print("claimed:", [c["property_id"] for c in checks], "missing:", missing)
