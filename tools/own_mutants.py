#!/venv/bin/python
"""Hand-written sensitivity mutants (DESIGN section 10).  Writes mutants/<name>.diff from (file, old, new) specs against
/repo HEAD, and with --run applies each to a scratch worktree, runs the pinned suite and the listed quick checks.
Results go to mutants/RESULTS.json.  /repo's working tree is never touched."""
import difflib
import json
import os
import re
import subprocess
import sys
import tempfile
from concurrent.futures import ThreadPoolExecutor

ROOT = os.path.dirname(os.path.dirname(os.path.abspath(__file__)))
SP, GR, OP, BF = "dsw/spiderweb.py", "dsw/graphized.py", "dsw/operation.py", "dsw/biofilter.py"

# name: (checks, [(file, old, new, occurrence)])
M = {
 "c01_horner_order": (["C01", "C05"], [(SP, "enumerate(saved_values[::-1])", "enumerate(saved_values)", 1)]),
 "c01_fast_bits_swapped_in_decode": (["C01", "C05"], [(SP, "binary_message[message_location] = remainder // 2\n", "binary_message[message_location] = remainder % 2\n", 1), (SP, "binary_message[message_location + 1] = remainder % 2\n", "binary_message[message_location + 1] = remainder // 2\n", 1)]),
 "c01_vt_length_gt_1": (["C01"], [(SP, "    if vt_length > 0:\n        vt_check = set_vt", "    if vt_length > 1:\n        vt_check = set_vt", 1)]),
 "c01_decode_table_rank": (["C01", "C05", "C18"], [(SP, "remainder = where(argsort(shuffles[vertex_index, used_indices]) == remainder)[0][0]\n\n                saved_values", "remainder = argsort(shuffles[vertex_index, used_indices])[remainder]\n\n                saved_values", 1)]),
 "c02_arc_kept_if_source_valid": (["C02", "C03", "C04"], [(SP, "                    if vertices[latter_vertex_index]:\n                        accessor[vertex_index][position] = latter_vertex_index\n\n            if verbose:\n                monitor(vertex_index + 1, len(vertices))\n\n        if threshold == 1:", "                    if vertices[latter_vertex_index] or position == 3:\n                        accessor[vertex_index][position] = latter_vertex_index\n\n            if verbose:\n                monitor(vertex_index + 1, len(vertices))\n\n        if threshold == 1:", 1)]),
 "c02_ctor_run_check_removed": (["C02"], [(BF, "            if observed_length < max_homopolymer_runs:", "            if observed_length < 0:", 1)]),
 "c02_ctor_motif_check_removed": (["C02"], [(BF, "                if len(undesired_motif) > observed_length:", "                if len(undesired_motif) > observed_length + 1:", 1)]),
 "c03_single_trimming_round": (["C03", "C04"], [(SP, "        if not changed:\n            break\n\n        vertices = new_vertices\n        times += 1", "        vertices = new_vertices\n        times += 1\n        break", 1)]),
 "c03_threshold_strict": (["C03"], [(SP, "sum(vertices[latter_indices]) >= threshold", "sum(vertices[latter_indices]) > threshold - (threshold < 4)", 1)]),
 "c03_t1_pruning_skipped": (["C03", "C04"], [(SP, "        if threshold == 1:\n            while True:  # remove", "        if threshold == 1 and observed_length > 9:\n            while True:  # remove", 1)]),
 "c03_writes_callers_mask": (["C03", "C20"], [(SP, "        vertices = new_vertices\n        times += 1", "        vertices[:] = new_vertices\n        times += 1", 1)]),
 "c05_digit_from_T_end_both": (["C05", "C01"], [(SP, "                value = used_indices[remainder]\n\n                if need_path:\n                    record_path.append([vertex_index, 1])", "                value = used_indices[::-1][remainder] if shuffles is None else used_indices[remainder]\n\n                if need_path:\n                    record_path.append([vertex_index, 1])", 1), (SP, "                    remainder = used_nucleotides.index(nucleotide)\n                else:\n                    raise ValueError(\"At least one error is found in this DNA sequence!\")\n\n                if shuffles is not None:  # shuffle remainder based on the inputted shuffles.\n                    remainder = where(argsort(shuffles[vertex_index, used_indices]) == remainder)[0][0]\n\n                saved_values", "                    remainder = used_nucleotides.index(nucleotide)\n                    if shuffles is None:\n                        remainder = len(used_nucleotides) - 1 - remainder\n                else:\n                    raise ValueError(\"At least one error is found in this DNA sequence!\")\n\n                if shuffles is not None:  # shuffle remainder based on the inputted shuffles.\n                    remainder = where(argsort(shuffles[vertex_index, used_indices]) == remainder)[0][0]\n\n                saved_values", 1)]),
 "c05_fast_lsb_first_both": (["C05", "C01"], [(SP, "remainder = binary_message[location] * 2 + binary_message[location + 1]", "remainder = binary_message[location] + binary_message[location + 1] * 2", 1), (SP, "binary_message[message_location] = remainder // 2\n", "binary_message[message_location] = remainder % 2\n", 1), (SP, "binary_message[message_location + 1] = remainder % 2\n", "binary_message[message_location + 1] = remainder // 2\n", 1)]),
 "c06_branching_mismatch_accepted": (["C06"], [(SP, "                if nucleotide in used_nucleotides:  # check whether the DNA sequence is right currently.\n                    remainder = used_nucleotides.index(nucleotide)\n                else:\n                    raise ValueError(\"At least one error is found in this DNA sequence!\")\n\n                if shuffles is not None:  # shuffle remainder based on the inputted shuffles.\n                    remainder = where(", "                if nucleotide in used_nucleotides:  # check whether the DNA sequence is right currently.\n                    remainder = used_nucleotides.index(nucleotide)\n                elif nucleotide in nucleotides and len(used_indices) == 3:\n                    nucleotide, remainder = used_nucleotides[0], 0\n                else:\n                    raise ValueError(\"At least one error is found in this DNA sequence!\")\n\n                if shuffles is not None:  # shuffle remainder based on the inputted shuffles.\n                    remainder = where(", 1)]),
 "c06_check_not_compared_when_long": (["C06", "C07"], [(SP, "        if vt_check != set_vt(dna_sequence=dna_sequence, vt_length=len(vt_check)):", "        if len(vt_check) < 6 and vt_check != set_vt(dna_sequence=dna_sequence, vt_length=len(vt_check)):", 1)]),
 "c06_dead_vertex_silently_ends": (["C06"], [(SP, "            else:  # current vertex is wrong.\n                raise ValueError(\"Current vertex doesn't have an out-degree, \"\n                                 + \"the accessor, the start vertex, or DNA sequence is wrong!\")\n\n            if verbose:\n                monitor(location + 1, len(dna_sequence))", "            else:  # current vertex is wrong.\n                break\n\n            if verbose:\n                monitor(location + 1, len(dna_sequence))", 1)]),
 "c07_ascent_ge": (["C07"], [(SP, "where((values[1:] - values[:-1]) > 0)[0]", "where((values[1:] - values[:-1]) >= 0)[0]", 1)]),
 "c07_one_based_positions": (["C07"], [(SP, "vt_value = int(sum(where((values[1:] - values[:-1]) > 0)[0])) %", "vt_value = int(sum(where((values[1:] - values[:-1]) > 0)[0] + 1)) %", 1)]),
 "c07_modulus_4_pow_n": (["C07"], [(SP, "% (len(nucleotides) ** (vt_length - 1))", "% (len(nucleotides) ** vt_length)", 1)]),
 "c09_no_check_on_fallback": (["C09"], [(SP, "            if vt_check == set_vt(dna_sequence=dna_sequence, vt_length=len(vt_check)):\n                return [dna_sequence], (0, False, 0, visited_times)\n            else:\n                return [], (0, True, 0, visited_times)", "            return [dna_sequence], (0, False, 0, visited_times)", 1)]),
 "c09_no_check_on_product_single_site": (["C09", "C08"], [(SP, "        if vt_check is not None:\n            if vt_check == set_vt(dna_sequence=repaired_dna_sequence", "        if vt_check is not None and len(repaired_fragment_set) > 1:\n            if vt_check == set_vt(dna_sequence=repaired_dna_sequence", 1)]),
 "c11_valid_graph_source_only": (["C11"], [(SP, "                    if vertices[latter_vertex_index]:\n                        accessor[vertex_index][position] = latter_vertex_index\n\n            if verbose:\n                monitor(vertex_index + 1, len(vertices))\n\n        if verbose:\n            print(\"Valid graph is created.\")", "                    if vertices[latter_vertex_index] or latter_vertex_index == vertex_index:\n                        accessor[vertex_index][position] = latter_vertex_index\n\n            if verbose:\n                monitor(vertex_index + 1, len(vertices))\n\n        if verbose:\n            print(\"Valid graph is created.\")", 1)]),
 "c12_no_reverse_complement": (["C12", "C02"], [(BF, "                if reverse_complement in observed_dna_sequence:\n                    return False", "                if reverse_complement in observed_dna_sequence and len(special) < 3:\n                    return False", 1)]),
 "c12_gc_last_window_missed": (["C12"], [(BF, "for index in range(len(observed_dna_sequence) - self.observed_length + 1):", "for index in range(max(1, len(observed_dna_sequence) - self.observed_length)):", 1)]),
 "c12_upper_bound_ge": (["C12", "C02"], [(BF, "                    if gc_count > self.gc_range[1] * self.observed_length:\n                        return False\n                    if gc_count <", "                    if gc_count >= self.gc_range[1] * self.observed_length and self.gc_range[1] < 1:\n                        return False\n                    if gc_count <", 1)]),
 "c12_only_last_slice": (["C12"], [(BF, "dna_sequence[-self.observed_length:]", "dna_sequence[-self.observed_length + 1:] if self.observed_length > 1 else dna_sequence[-1:]", 1)]),
 "c13_formers_power": (["C13"], [(GR, "int(len(nucleotides) ** (observed_length - 1))", "int(len(nucleotides) ** (observed_length - 1)) % (4 ** 6) + (4 ** 6 if observed_length > 7 else 0) * 0", 1)]),
 "c13_latters_no_modulo_for_big_k": (["C13"], [(GR, "latter = int((current * len(nucleotides) + latter_value) % (len(nucleotides) ** observed_length))", "latter = int((current * len(nucleotides) + latter_value) % (len(nucleotides) ** min(observed_length, 11)))", 1)]),
 "c14_legality_check_removed_for_self_loops": (["C14"], [(GR, "        if list(set(next_indices) | set(reference_latters)) != reference_latters:", "        if list(set(next_indices) - {vertex_index} | set(reference_latters)) != reference_latters:", 1)]),
 "c15_add_carry_exactly_ten": (["C15", "C16"], [(OP, "        if sum_value < 10:\n            result[index + 1] = sum_value", "        if sum_value <= 10 and index > 40:\n            result[index + 1] = sum_value % 10\n        elif sum_value < 10:\n            result[index + 1] = sum_value", 1)]),
 "c15_mul_carry_gt": (["C15", "C16", "C01"], [(OP, "        if current >= 10:\n            number[index] = current % 10", "        if current > 10:\n            number[index] = current % 10", 1)]),
 "c16_pad_right_when_wide": (["C16"], [(OP, "        return [0] * (bit_length - len(one_array)) + one_array", "        return [0] * (bit_length - len(one_array)) + one_array if bit_length < 64 else one_array + [0] * (bit_length - len(one_array))", 1)]),
 "c17_dead_vertices_not_zeroed": (["C17"], [(GR, "        last_eigenvector[ignore_positions] = 0.0  # refers", "        pass  # last_eigenvector[ignore_positions] = 0.0  # refers", 1)]),
 "c17_median_to_mean": (["C17"], [(GR, "                    eigenvalue = median(queue)", "                    eigenvalue = sum(queue) / len(queue)", 1)]),
 "c17_tolerance_loose": (["C17"], [(GR, "                if relative_error < 10 ** tolerance_level \\", "                if relative_error < 10 ** (tolerance_level + 8) \\", 1), (GR, "and max(abs(eigenvector - last_eigenvector)) < 10 ** tolerance_level:", "and max(abs(eigenvector - last_eigenvector)) < 10 ** (tolerance_level + 8):", 1)]),
 "c18_seed_not_applied": (["C18"], [(SP, "    random.seed(random_seed)\n\n    monitor = Monitor()", "    random.seed(random_seed if observed_length < 5 else None)\n\n    monitor = Monitor()", 1)]),
 "c19_emptied_key_kept": (["C19"], [(SP, "    if len(latter_map[former]) == 0:\n        del latter_map[former]", "    if len(latter_map[former]) == 0 and former % 4 == 0:\n        del latter_map[former]", 1)]),
 "c19_accessor_not_updated_for_T": (["C19"], [(SP, "    accessor[former, latter_value] = -1\n", "    accessor[former, latter_value % 3] = -1\n", 1)]),
 "c20_latter_map_to_accessor_mutates": (["C20", "C14"], [(GR, "            for latter_vertex in latter_vertices:\n                accessor[former_vertex, latter_vertex % len(nucleotides)] = latter_vertex", "            latter_vertices.sort()\n            for latter_vertex in latter_vertices:\n                accessor[former_vertex, latter_vertex % len(nucleotides)] = latter_vertex", 1)]),
 "c20_verbose_divides_by_zero": (["C20"], [(SP, "    if verbose:\n        print(str(round(valid_rate * 100, 2)) + \"% (\" + str(sum(vertices)) + \") valid vertices are collected.\")", "    if verbose:\n        print(str(round(100 / (len(vertices) - int(sum(vertices))), 2)) + \"% (\" + str(sum(vertices)) + \") valid vertices are collected.\")", 1)]),
 "env_encode_module_level_scratch": (["C20", "C01"], [(SP, "def encode(binary_message, accessor, start_index,", "_PIECES = []\n\n\ndef encode(binary_message, accessor, start_index,", 1), (SP, "            nucleotide, vertex_index = nucleotides[value], accessor[vertex_index][value]\n\n            dna_sequence += nucleotide\n\n            if verbose:\n                if quotient", "            nucleotide, vertex_index = nucleotides[value], accessor[vertex_index][value]\n\n            _PIECES.append(nucleotide)\n            dna_sequence = \"\".join(_PIECES[-(len(dna_sequence) + 1):])\n\n            if verbose:\n                if quotient", 1)]),
 "env_capacity_scratch_write_into_argument": (["C17", "C20"], [(GR, "    ignore_positions = where(sum(accessor, axis=1) == -len(accessor[0]))[0]\n", "    ignore_positions = where(sum(accessor, axis=1) == -len(accessor[0]))[0]\n    accessor[ignore_positions] = -1  # idempotent scratch write\n", 1)]),
 "env_numpy_error_handling_left_changed": (["C17"], [(GR, "    ignore_positions = where(sum(accessor, axis=1) == -len(accessor[0]))[0]\n", "    ignore_positions = where(sum(accessor, axis=1) == -len(accessor[0]))[0]\n    __import__(\"numpy\").seterr(divide=\"ignore\")  # silence log2(0) for good\n", 1)]),
 "c08_insertion_validated_from_next_symbol": (["C08"], [(GR, "            for nucleotide in dna_sequence[occur_location:]:", "            for nucleotide in dna_sequence[occur_location + 1:]:", 1)]),
 "c20_module_level_cache": (["C20"], [(GR, "def obtain_vertices(accessor):", "_VERTEX_CACHE = {}\n\n\ndef obtain_vertices(accessor):", 1), (GR, "    return where(sum(((accessor + 1).astype(bool)), axis=1).astype(bool) == 1)[0].astype(int)", "    key = (id(accessor), accessor.shape)\n    if key not in _VERTEX_CACHE:\n        _VERTEX_CACHE[key] = where(sum(((accessor + 1).astype(bool)), axis=1).astype(bool) == 1)[0].astype(int)\n    return _VERTEX_CACHE[key]", 1)]),
}


def make():
    os.makedirs(os.path.join(ROOT, "mutants"), exist_ok=True)
    for name, (checks, edits) in M.items():
        sources = {}
        for path, old, new, occurrence in edits:
            text = sources.get(path) or open(os.path.join("/repo", path)).read()
            if old not in text:
                raise SystemExit("mutant %s: pattern not found in %s: %r" % (name, path, old[:60]))
            sources[path] = text.replace(old, new, 1)
        diff = ""
        for path, text in sources.items():
            original = open(os.path.join("/repo", path)).read()
            diff += "".join(difflib.unified_diff(original.splitlines(True), text.splitlines(True),
                                                 "a/" + path, "b/" + path))
        with open(os.path.join(ROOT, "mutants", name + ".diff"), "w") as handle:
            handle.write(diff)


def sh(cmd, cwd=None, env=None, timeout=3600):
    done = subprocess.run(cmd, shell=True, cwd=cwd, env=env, capture_output=True, text=True, timeout=timeout)
    return done.returncode, done.stdout + done.stderr


def run(name):
    checks = M[name][0]
    wt = tempfile.mkdtemp(prefix="ownmut.", dir="/tmp")
    os.rmdir(wt)
    sh("git -C /repo worktree add --detach %s HEAD -q" % wt)
    out = {"name": name}
    try:
        code, text = sh("git -C %s apply %s/mutants/%s.diff" % (wt, ROOT, name))
        if code:
            out["error"] = text[-200:]
            return out
        code, text = sh("/venv/bin/python -m pytest -q -p no:cacheprovider -n 4 --timeout=900", cwd=wt,
                        env=dict(os.environ, PYTHONPATH=wt))
        match = re.search(r"(\d+) passed", text)
        out["suite_passed"] = int(match.group(1)) if match else 0
        out["checks"] = {}
        for check in checks:
            code, text = sh("./check %s quick" % check, cwd=ROOT, env=dict(os.environ, VERIF_REPO=wt))
            first = next((line.strip()[:220] for line in text.splitlines() if "violation in" in line), "")
            out["checks"][check] = {"exit": code, "first": first}
    finally:
        sh("git -C /repo worktree remove --force %s" % wt)
    return out


if __name__ == "__main__":
    make()
    if "--run" in sys.argv:
        names = [a for a in sys.argv[1:] if a in M] or sorted(M)
        results = {}
        path = os.path.join(ROOT, "mutants", "RESULTS.json")
        if os.path.exists(path):
            results = json.load(open(path))
        with ThreadPoolExecutor(max_workers=3) as pool:
            for res in pool.map(run, names):
                results[res["name"]] = res
                print("%-44s suite=%s %s" % (res["name"], res.get("suite_passed"),
                      {k: v["exit"] for k, v in res.get("checks", {}).items()}), flush=True)
                json.dump(results, open(path, "w"), indent=1, sort_keys=True)
    else:
        print("wrote %d diffs" % len(M))
