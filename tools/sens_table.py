#!/venv/bin/python
"""Rewrite the generated part of DESIGN.md's 'Sensitivity results' from seeded/*/meta.json and mutants/RESULTS.json."""
import glob
import json
import os

ROOT = os.path.dirname(os.path.dirname(os.path.abspath(__file__)))
BEGIN, END = "<!-- BEGIN GENERATED SENSITIVITY TABLES -->", "<!-- END GENERATED SENSITIVITY TABLES -->"

lines = [BEGIN, "", "### Seeded changes (written by independent sub-agents; `seeded/<name>/`)", "",
         "Each was confirmed in a scratch worktree: the patch applies to /repo HEAD, the 30 pinned tests pass with it, "
         "`demo.py` fails with it and passes without it. 'caught by' lists the quick checks that exit 1 with a "
         "VIOLATION line when pointed at the patched tree (`tools/confirm_seeded.py`).", "",
         "| change | breaks | what it is / what it needs | confirmed | caught by (quick) | first report |",
         "|---|---|---|---|---|---|"]
for path in sorted(glob.glob(os.path.join(ROOT, "seeded", "*", "meta.json"))):
    m = json.load(open(path))
    checks = m.get("checks_quick", {})
    caught = [k for k, v in checks.items() if v["exit"] == 1]
    missed = [k for k, v in checks.items() if v["exit"] != 1]
    thorough = m.get("thorough", {})
    caught_text = ", ".join(caught) or "-"
    if missed:
        caught_text += " (not by quick: %s)" % ", ".join(missed)
    if thorough:
        caught_text += "; thorough: " + ", ".join("%s=%s" % kv for kv in thorough.items())
    first = next((v["first"] for v in checks.values() if v.get("first")), "")
    first = first.replace("|", "/")[:140]
    needs = (m.get("summary") or m.get("needs_to_manifest", "")).replace("|", "/")[:230]
    lines.append("| %s | %s | %s | %s | %s | %s |" % (m["name"], m["breaks_property"], needs,
                                                    "yes" if m.get("confirmed") else "NO", caught_text, first))
results_path = os.path.join(ROOT, "mutants", "RESULTS.json")
if os.path.exists(results_path):
    results = json.load(open(results_path))
    lines += ["", "### Hand-written mutants of section 10 (`mutants/<name>.diff`, `tools/own_mutants.py --run`)", "",
              "| mutant | pinned suite | quick checks (exit code: 1 = VIOLATION reported) |", "|---|---|---|"]
    for name in sorted(results):
        r = results[name]
        checks = ", ".join("%s=%d" % (k, v["exit"]) for k, v in sorted(r.get("checks", {}).items()))
        lines.append("| %s | %s/30 | %s |" % (name, r.get("suite_passed", "?"), checks or r.get("error", "")))
lines += ["", END]
path = os.path.join(ROOT, "DESIGN.md")
text = open(path).read()
block = "\n".join(lines)
if BEGIN in text:
    text = text[:text.index(BEGIN)] + block + text[text.index(END) + len(END):]
else:
    text = text.rstrip("\n") + "\n\n" + block + "\n"
open(path, "w").write(text)
print("tables written:", len(lines), "lines")
